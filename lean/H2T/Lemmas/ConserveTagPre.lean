import H2T.Lemmas.TagTree

/-! C09 inside `<pre>`: the main tag and the continuation tag of a preformatted text differ (`Preformat(false)` /
    `Preformat(true)`), and which one a character gets depends on wrapping.  Under a view `ν` of tag vectors that
    identifies the two, every character still carries exactly the annotation stack in force (plus the preformat
    annotation). -/

namespace H2T

/-! ## wrap layer with two tags -/

theorem addChar_tink2 (b b' : WB) (m : WS) (mt ct : Tag) (cur cur' : Bool) (c : Ch) (h : b.addChar m mt ct cur c = .ok (b', cur')) :
    ∃ t, (t = mt ∨ t = ct) ∧ b'.tink = b.tink ++ tkeep t [c] := by
  unfold WB.addChar at h
  simp only at h
  generalize hr : (if (c.ws && !b.word.noContent) = true then b.flushWord m else Except.ok b) = r at h
  cases r with
  | error e => simp at h
  | ok b1 =>
    simp only at h
    have e1 : b1.tink = b.tink := by
      split at hr
      · exact flushWord_tink b b1 m hr
      · injection hr with hr; subst hr; rfl
    by_cases hws : c.ws = true
    · refine ⟨mt, Or.inl rfl, ?_⟩
      have hk : tkeep mt [c] = [] := by simp [tkeep, keep, hws]
      rw [hk, List.append_nil, ← e1]
      simp only [hws, if_true] at h
      split at h
      · split at h
        · injection h with h; simp only [Prod.mk.injEq] at h; obtain ⟨rfl, _⟩ := h
          show ({ b1.forceFlush with wslen := 0, spacetag := none, preWrapped := false } : WB).tink = b1.tink
          exact tink_forceFlush b1
        · split at h
          · cases ht : b1.tabLoop (if cur = true then ct else mt) (b1.linelen + b1.wslen) false (2 * b1.width + 20) with
            | error e => simp [ht] at h
            | ok bt =>
              simp only [ht] at h; injection h with h; simp only [Prod.mk.injEq] at h; obtain ⟨rfl, _⟩ := h
              exact tabLoop_tink _ _ b1 _ _ _ ht
          · split at h
            · injection h with h; simp only [Prod.mk.injEq] at h; obtain ⟨rfl, _⟩ := h; rfl
            · split at h
              · split at h
                · injection h with h; simp only [Prod.mk.injEq] at h; obtain ⟨rfl, _⟩ := h
                  exact tink_flushLine { b1 with wslen := 0 }
                · injection h with h; simp only [Prod.mk.injEq] at h; obtain ⟨rfl, _⟩ := h
                  exact tink_flushLine { b1 with wslen := 0 }
              · injection h with h; simp only [Prod.mk.injEq] at h; obtain ⟨rfl, _⟩ := h; rfl
      · split at h <;> (injection h with h; simp only [Prod.mk.injEq] at h; obtain ⟨rfl, _⟩ := h; rfl)
    · have hws' : c.ws = false := by simpa using hws
      simp only [hws', Bool.false_eq_true, if_false] at h
      split at h
      · rename_i hct
        injection h with h; simp only [Prod.mk.injEq] at h; obtain ⟨rfl, _⟩ := h
        exact ⟨mt, Or.inl rfl, by simp [tkeep, keep, hws', hct, e1]⟩
      · rename_i hct
        injection h with h; simp only [Prod.mk.injEq] at h; obtain ⟨rfl, _⟩ := h
        have hct' : c.ctrl = false := by simpa using hct
        refine ⟨if (if (decide (m = WS.pre) && decide (b1.linelen + b1.wslen + (b1.wordlen + c.w) > b1.width)) = true then true else cur) = true then ct else mt, ?_, ?_⟩
        · generalize (if (decide (m = WS.pre) && decide (b1.linelen + b1.wslen + (b1.wordlen + c.w) > b1.width)) = true then true else cur) = q
          cases q <;> simp
        · rw [← e1]
          simp [WB.tink, tink, tkeep, keep, hws', hct', List.append_assoc]

/-- the visible characters of `cs`, each tagged `mt` or `ct` -/
def MixTag (mt ct : Tag) (cs : List Ch) (cells : List Cell) : Prop :=
  cells.map (·.ch) = keep cs ∧ ∀ x ∈ cells, x.tag = mt ∨ x.tag = ct

theorem MixTag.nil (mt ct : Tag) : MixTag mt ct [] [] := ⟨rfl, fun _ h => by simp at h⟩

theorem tkeep_ch (t : Tag) (cs : List Ch) : (tkeep t cs).map (·.ch) = keep cs := by simp [tkeep, Function.comp_def]

theorem MixTag.cons {mt ct : Tag} {c : Ch} {cs : List Ch} {cells : List Cell} (t : Tag) (ht : t = mt ∨ t = ct) (h : MixTag mt ct cs cells) :
    MixTag mt ct (c :: cs) (tkeep t [c] ++ cells) := by
  refine ⟨?_, ?_⟩
  · rw [List.map_append, tkeep_ch, h.1, keep_cons c cs]
  · intro x hx
    rw [List.mem_append] at hx
    cases hx with
    | inl hx =>
      simp only [tkeep, List.mem_map] at hx
      obtain ⟨_, _, rfl⟩ := hx
      exact ht
    | inr hx => exact h.2 x hx

theorem addTextGo_tink2 (m : WS) (mt ct : Tag) (cs : List Ch) : ∀ (b b' : WB) (cur : Bool), b.addTextGo m mt ct cur cs = .ok b' →
    ∃ cells, MixTag mt ct cs cells ∧ b'.tink = b.tink ++ cells := by
  induction cs with
  | nil => intro b b' cur h; simp [WB.addTextGo] at h; subst h; exact ⟨[], MixTag.nil mt ct, by simp⟩
  | cons c cs ih =>
    intro b b' cur h
    simp only [WB.addTextGo] at h
    cases hc : b.addChar m mt ct cur c with
    | error e => simp [hc] at h
    | ok r =>
      obtain ⟨b1, cur1⟩ := r
      simp only [hc] at h
      obtain ⟨cells, hm, he⟩ := ih b1 b' cur1 h
      obtain ⟨t, ht, e1⟩ := addChar_tink2 b b1 m mt ct cur cur1 c hc
      exact ⟨tkeep t [c] ++ cells, MixTag.cons t ht hm, by rw [he, e1, List.append_assoc]⟩

theorem addText_tink2 (b b' : WB) (m : WS) (mt ct : Tag) (cs : List Ch) (h : b.addText m mt ct cs = .ok b') :
    ∃ cells, MixTag mt ct cs cells ∧ b'.tink = b.tink ++ cells := by
  unfold WB.addText WB.zeroGuard at h
  split at h
  · split at h
    · simp only [andThen] at h
      have := addTextGo_tink2 m mt ct cs _ b' _ h
      simpa [WB.tink] using this
    · split at h
      · simp [andThen] at h
      · simp only [andThen] at h
        exact addTextGo_tink2 m mt ct cs _ b' _ h
  · simp only [andThen] at h
    exact addTextGo_tink2 m mt ct cs _ b' _ h

/-! ## views of tag vectors -/

def retag (ν : Tag → Tag) (c : Cell) : Cell := ⟨c.ch, ν c.tag⟩

theorem MixTag.retag {mt ct : Tag} {cs : List Ch} {cells : List Cell} (ν : Tag → Tag) (τ : Tag) (h1 : ν mt = τ) (h2 : ν ct = τ)
    (h : MixTag mt ct cs cells) : cells.map (retag ν) = tkeep τ cs := by
  obtain ⟨a, b⟩ := h
  rw [tkeep, ← a, List.map_map]
  apply List.map_congr_left
  intro x hx
  cases b x hx with
  | inl e => simp [H2T.retag, e, h1]
  | inr e => simp [H2T.retag, e, h2]

theorem tkeep_retag (ν : Tag → Tag) (t : Tag) (cs : List Ch) : (tkeep t cs).map (retag ν) = tkeep (ν t) cs := by
  simp [tkeep, retag, Function.comp_def]

/-- `add_inline_text` at any `pre` depth: under a view that identifies the main and the continuation tag, the sub-renderer
    gains exactly the visible characters of the (filtered) text, tagged with the main tag -/
theorem addInlineText_tinkν (ν : Tag → Tag) (s s' : SubR) (cfg : Cfg) (x : List Ch) (f : Ann → Ann) (hf : s.FragsOk)
    (hν : ν (s.annStack ++ [f (Ann.pre true)]) = ν (s.annStack ++ [f (Ann.pre false)]))
    (h : s.addInlineText cfg x f = .ok s') :
    s'.tink.map (retag ν) = s.tink.map (retag ν) ++
        tkeep (ν (if s.preDepth > 0 then s.annStack ++ [f (Ann.pre false)] else s.annStack)) (iterN strikeFilter s.filterDepth x) ∧
      s'.FragsOk ∧ s'.ff = s.ff := by
  have hff := addInlineText_ff s s' cfg x f h
  refine ⟨?_, ?_, hff⟩
  all_goals unfold SubR.addInlineText at h
  · split at h
    · rename_i hc
      injection h with h; subst h
      simp only [Bool.and_eq_true] at hc
      simp [tkeep, keep_filtered_ws _ _ hc.2]
    · generalize hs0 : (if s.atBlockEnd = true then s.startBlock else Except.ok s) = r0 at h
      cases r0 with
      | error e => simp [andThen] at h
      | ok s0 =>
        have e0 : s0.tink = s.tink ∧ s0.FragsOk ∧ s0.ff = s.ff := by
          split at hs0
          · obtain ⟨a, b⟩ := startBlock_tink s s0 hf hs0
            exact ⟨a, b, startBlock_ff s s0 hs0⟩
          · injection hs0 with hs0; subst hs0; exact ⟨rfl, hf, rfl⟩
        have hff0 := e0.2.2
        simp only [SubR.ff, Prod.mk.injEq] at hff0
        simp only [andThen] at h
        cases hr : (s0.getWrapping cfg).addText s0.wsMode (if s0.preDepth > 0 then s0.annStack ++ [f (Ann.pre false)] else s0.annStack)
            (if s0.preDepth > 0 then s0.annStack ++ [f (Ann.pre true)] else s0.annStack) (iterN strikeFilter s0.filterDepth x) with
        | error e => simp [hr] at h
        | ok w' =>
          simp only [hr] at h; injection h with h; subst h
          obtain ⟨cells, hm, hw⟩ := addText_tink2 _ w' _ _ _ _ hr
          have hcells : cells.map (retag ν) =
              tkeep (ν (if s.preDepth > 0 then s.annStack ++ [f (Ann.pre false)] else s.annStack)) (iterN strikeFilter s.filterDepth x) := by
            rw [← hff0.1, ← hff0.2.1, ← hff0.2.2.2.1]
            apply hm.retag ν _ rfl
            rw [hff0.1, hff0.2.1]
            split
            · exact hν
            · rfl
          show (s0.lines.flatMap trink ++ w'.tink).map (retag ν) = _
          rw [hw, getWrapping_tink, ← hcells, ← e0.1]
          simp [SubR.tink, List.append_assoc]
  · split at h
    · injection h with h; subst h; exact hf
    · generalize hs0 : (if s.atBlockEnd = true then s.startBlock else Except.ok s) = r0 at h
      cases r0 with
      | error e => simp [andThen] at h
      | ok s0 =>
        have e0 : s0.FragsOk := by
          split at hs0
          · exact (startBlock_tink s s0 hf hs0).2
          · injection hs0 with hs0; subst hs0; exact hf
        simp only [andThen] at h
        generalize (if s0.preDepth > 0 then s0.annStack ++ [f (Ann.pre false)] else s0.annStack) = mt at h
        generalize (if s0.preDepth > 0 then s0.annStack ++ [f (Ann.pre true)] else s0.annStack) = ct at h
        cases hr : (s0.getWrapping cfg).addText s0.wsMode mt ct (iterN strikeFilter s0.filterDepth x) with
        | error e => simp [hr] at h
        | ok w' => simp only [hr] at h; injection h with h; subst h; exact e0

/-! ## programs, with the `pre` depth tracked -/

/-- a view of tag vectors that identifies `Preformat(true)` with `Preformat(false)` on top of any stack -/
def PreView (ν : Tag → Tag) (d : Deco) : Prop := ∀ st : Tag, ν (st ++ [d.annOf (Ann.pre true)]) = ν (st ++ [d.annOf (Ann.pre false)])

/-- the main tag of text added under stack `st` at `pre` depth `pre` -/
def preTag (d : Deco) (st : Tag) (pre : Nat) : Tag := if pre > 0 then st ++ [d.annOf (Ann.pre false)] else st

/-- the viewed cells on the alphabet -/
def vw (ν : Tag → Tag) (P : Ch → Bool) (cs : List Cell) : List Cell := pf P (cs.map (retag ν))

theorem vw_append (ν : Tag → Tag) (P : Ch → Bool) (a b : List Cell) : vw ν P (a ++ b) = vw ν P a ++ vw ν P b := by
  simp [vw, pf_append]

theorem vw_eq_map_pf (ν : Tag → Tag) (P : Ch → Bool) (cs : List Cell) : vw ν P cs = (pf P cs).map (retag ν) := by
  induction cs with
  | nil => rfl
  | cons c cs ih =>
    simp only [vw, pf, List.map_cons, List.filter_cons] at ih ⊢
    by_cases hp : P c.ch = true
    · simp [retag, hp, ih]
    · simp [retag, hp, ih]

mutual
def opTinkN (ν : Tag → Tag) (cfg : Cfg) (d : Deco) (st : Tag) (dep pre : Nat) : Op → List Cell × Tag × Nat × Nat
  | .text x => (tkeep (ν (preTag d st pre)) (iterN strikeFilter dep x), st, dep, pre)
  | .pushAnn a => ([], st ++ [a], dep, pre)
  | .popAnn => ([], st.dropLast, dep, pre)
  | .pushPre => ([], st, dep, pre + 1)
  | .popPre => ([], st, dep, pre - 1)
  | .startLink href =>
    (tkeep (ν (preTag d (st ++ [d.annOf (Ann.link href)]) pre)) (iterN strikeFilter dep d.linkStart), st ++ [d.annOf (Ann.link href)], dep, pre)
  | .endLink => (tkeep (ν (preTag d st pre)) (iterN strikeFilter dep d.linkEnd), st.dropLast, dep, pre)
  | .startAnn a x strike =>
    (tkeep (ν (preTag d (st ++ [d.annOf a]) pre)) (iterN strikeFilter dep x), st ++ [d.annOf a],
      (if strike && cfg.unicodeStrike then dep + 1 else dep), pre)
  | .endAnn x strike =>
    (tkeep (ν (preTag d st pre)) (iterN strikeFilter (if strike && cfg.unicodeStrike then dep - 1 else dep) x), st.dropLast,
      (if strike && cfg.unicodeStrike then dep - 1 else dep), pre)
  | .image src title => (tkeep (ν (preTag d (st ++ [d.annOf (Ann.image src)]) pre)) (iterN strikeFilter dep (d.imgText title)), st, dep, pre)
  | .sub _ _ _ _ _ body => ((opsTinkN ν cfg d st 0 0 body).1, st, dep, pre)
  | _ => ([], st, dep, pre)
def opsTinkN (ν : Tag → Tag) (cfg : Cfg) (d : Deco) (st : Tag) (dep pre : Nat) : List Op → List Cell × Tag × Nat × Nat
  | [] => ([], st, dep, pre)
  | op :: r =>
    ((opTinkN ν cfg d st dep pre op).1 ++
        (opsTinkN ν cfg d (opTinkN ν cfg d st dep pre op).2.1 (opTinkN ν cfg d st dep pre op).2.2.1 (opTinkN ν cfg d st dep pre op).2.2.2 r).1,
     (opsTinkN ν cfg d (opTinkN ν cfg d st dep pre op).2.1 (opTinkN ν cfg d st dep pre op).2.2.1 (opTinkN ν cfg d st dep pre op).2.2.2 r).2)
end

/-- what a run conserves: viewed tagged cells on the alphabet, annotation stack, strikeout depth, `pre` depth -/
def TinkStepN (ν : Tag → Tag) (P : Ch → Bool) (s s' : SubR) (added : List Cell × Tag × Nat × Nat) : Prop :=
  vw ν P s'.tink = vw ν P s.tink ++ pf P added.1 ∧ s'.annStack = added.2.1 ∧ s'.filterDepth = added.2.2.1 ∧
    s'.preDepth = added.2.2.2 ∧ s'.FragsOk

theorem onCur_tinkN (ν : Tag → Tag) (P : Ch → Bool) (t : RS) (f : SubR → Except Err SubR) (t1 : RS) (added : List Cell × Tag × Nat × Nat)
    (h0 : t.onCur f = .ok t1) (hf : ∀ s1, f t.cur = .ok s1 → TinkStepN ν P t.cur s1 added) : TinkStepN ν P t.cur t1.cur added := by
  unfold RS.onCur at h0
  cases hfc : f t.cur with
  | error e => simp [hfc, andThen] at h0
  | ok s1 => simp only [hfc, andThen] at h0; injection h0 with h0; subst h0; exact hf s1 hfc

/-- `add_inline_text` from a state related to `t.cur` -/
theorem txt_stepN (ν : Tag → Tag) (P : Ch → Bool) (cfg : Cfg) (d : Deco) (hν : PreView ν d) (s0 s1 : SubR) (x : List Ch) (hf : s0.FragsOk)
    (e : s0.addInlineText cfg x d.annOf = .ok s1) :
    vw ν P s1.tink = vw ν P s0.tink ++ pf P (tkeep (ν (preTag d s0.annStack s0.preDepth)) (iterN strikeFilter s0.filterDepth x)) ∧
      s1.annStack = s0.annStack ∧ s1.filterDepth = s0.filterDepth ∧ s1.preDepth = s0.preDepth ∧ s1.FragsOk := by
  obtain ⟨a, b, c⟩ := addInlineText_tinkν ν s0 s1 cfg x d.annOf hf (hν _) e
  simp only [SubR.ff, Prod.mk.injEq] at c
  refine ⟨?_, c.1, c.2.2.2.1, c.2.1, b⟩
  show pf P (s1.tink.map (retag ν)) = _
  rw [a, pf_append]; rfl

theorem stepSimple_tinkN (ν : Tag → Tag) (P : Ch → Bool) (cfg : Cfg) (d : Deco) (hν : PreView ν d) (t t' : RS) (op : Op) (hfn : cfg.footnotes = false)
    (hfr : t.cur.FragsOk) (hsub : ∀ p m f r a b, op ≠ .sub p m f r a b) (htab : tableFreeOp op = true)
    (h : stepSimple cfg d t op = .ok t') :
    TinkStepN ν P t.cur t'.cur (opTinkN ν cfg d t.cur.annStack t.cur.filterDepth t.cur.preDepth op) := by
  have keep0 : ∀ (s0 : SubR), s0.lines = t.cur.lines → s0.wrapping = t.cur.wrapping → s0.pendingFrags = t.cur.pendingFrags →
      s0.filterDepth = t.cur.filterDepth → TinkStepN ν P t.cur s0 ([], s0.annStack, t.cur.filterDepth, s0.preDepth) := by
    intro s0 e1 e2 e3 e4
    exact ⟨by simp [SubR.tink, e1, e2, pf], rfl, e4, rfl, by unfold SubR.FragsOk; rw [e3]; exact hfr⟩
  have ffStep : ∀ (s1 : SubR), s1.tink = t.cur.tink → s1.FragsOk → s1.ff = t.cur.ff →
      TinkStepN ν P t.cur s1 ([], t.cur.annStack, t.cur.filterDepth, t.cur.preDepth) := by
    intro s1 a b c
    simp only [SubR.ff, Prod.mk.injEq] at c
    exact ⟨by rw [a]; simp [pf], c.1, c.2.2.2.1, c.2.1, b⟩
  cases op <;> simp only [stepSimple] at h
  case pushWs ws => exact onCur_tinkN ν P t _ t' _ h fun s1 e => by injection e with e; subst e; exact keep0 _ rfl rfl rfl rfl
  case popWs => exact onCur_tinkN ν P t _ t' _ h fun s1 e => by injection e with e; subst e; exact keep0 _ rfl rfl rfl rfl
  case pushAnn a => exact onCur_tinkN ν P t _ t' _ h fun s1 e => by injection e with e; subst e; exact keep0 _ rfl rfl rfl rfl
  case popAnn => exact onCur_tinkN ν P t _ t' _ h fun s1 e => by injection e with e; subst e; exact keep0 _ rfl rfl rfl rfl
  case pushPre => exact onCur_tinkN ν P t _ t' _ h fun s1 e => by injection e with e; subst e; exact keep0 _ rfl rfl rfl rfl
  case popPre =>
    exact onCur_tinkN ν P t _ t' _ h fun s1 e => by
      split at e
      · simp at e
      · injection e with e; subst e; exact keep0 _ rfl rfl rfl rfl
  case text x => exact onCur_tinkN ν P t _ t' _ h fun s1 e => txt_stepN ν P cfg d hν _ s1 x hfr e
  case frag n =>
    exact onCur_tinkN ν P t _ t' _ h fun s1 e => by
      injection e with e; subst e
      obtain ⟨a, b⟩ := recordFrag_tink t.cur cfg n hfr
      exact ⟨by rw [a]; simp [opTinkN, pf], rfl, rfl, rfl, b⟩
  case startLink href =>
    exact onCur_tinkN ν P { t with links := t.links ++ [href] } _ t' (opTinkN ν cfg d t.cur.annStack t.cur.filterDepth t.cur.preDepth (.startLink href)) h fun s1 e =>
      txt_stepN ν P cfg d hν ({ t.cur with annStack := t.cur.annStack ++ [d.annOf (Ann.link href)] } : SubR) s1 _ hfr e
  case endLink =>
    simp only [hfn, Bool.false_eq_true, if_false] at h
    generalize h1 : (t.onCur fun s => andThen (s.addInlineText cfg d.linkEnd d.annOf) fun s' => Except.ok { s' with annStack := s'.annStack.dropLast }) = r1 at h
    cases r1 with
    | error e => simp [andThen] at h
    | ok t1 =>
      simp only [andThen] at h; injection h with h; subst h
      exact onCur_tinkN ν P t _ t1 _ h1 fun s1 e => by
        cases h2 : t.cur.addInlineText cfg d.linkEnd d.annOf with
        | error e' => simp [h2, andThen] at e
        | ok s2 =>
          simp only [h2, andThen] at e; injection e with e; subst e
          obtain ⟨a, b, c, f, g⟩ := txt_stepN ν P cfg d hν t.cur s2 _ hfr h2
          exact ⟨a, by show s2.annStack.dropLast = _; rw [b]; rfl, c, f, g⟩
  case startAnn a x strike =>
    exact onCur_tinkN ν P t _ t' _ h fun s1 e => by
      cases h2 : ({ t.cur with annStack := t.cur.annStack ++ [d.annOf a] } : SubR).addInlineText cfg x d.annOf with
      | error e' => simp [h2, andThen] at e
      | ok s2 =>
        simp only [h2, andThen] at e; injection e with e; subst e
        obtain ⟨a1, b1, c1, f1, g1⟩ := txt_stepN ν P cfg d hν ({ t.cur with annStack := t.cur.annStack ++ [d.annOf a] } : SubR) s2 _ hfr h2
        simp only [opTinkN]
        split
        · exact ⟨a1, b1, by simp [c1], f1, g1⟩
        · exact ⟨a1, b1, c1, f1, g1⟩
  case endAnn x strike =>
    exact onCur_tinkN ν P t _ t' _ h fun s1 e => by
      generalize hs0 : (if (strike && cfg.unicodeStrike) = true then { t.cur with filterDepth := t.cur.filterDepth - 1 } else t.cur) = s0 at e
      have e0 : s0.tink = t.cur.tink ∧ s0.FragsOk ∧ s0.preDepth = t.cur.preDepth ∧ s0.annStack = t.cur.annStack ∧
          s0.filterDepth = (if (strike && cfg.unicodeStrike) = true then t.cur.filterDepth - 1 else t.cur.filterDepth) := by
        rw [← hs0]; split
        · exact ⟨rfl, hfr, rfl, rfl, rfl⟩
        · exact ⟨rfl, hfr, rfl, rfl, rfl⟩
      cases h2 : s0.addInlineText cfg x d.annOf with
      | error e' => simp [h2, andThen] at e
      | ok s2 =>
        simp only [h2, andThen] at e; injection e with e; subst e
        obtain ⟨a1, b1, c1, f1, g1⟩ := txt_stepN ν P cfg d hν s0 s2 _ e0.2.1 h2
        simp only [opTinkN]
        refine ⟨?_, ?_, ?_, ?_, g1⟩
        · show vw ν P s2.tink = _
          rw [a1, e0.1, e0.2.2.2.1, e0.2.2.2.2, e0.2.2.1]
        · show s2.annStack.dropLast = _
          rw [b1, e0.2.2.2.1]
        · show s2.filterDepth = _
          rw [c1, e0.2.2.2.2]
        · show s2.preDepth = _
          rw [f1, e0.2.2.1]
  case image src title =>
    exact onCur_tinkN ν P t _ t' _ h fun s1 e => by
      cases h2 : ({ t.cur with annStack := t.cur.annStack ++ [d.annOf (Ann.image src)] } : SubR).addInlineText cfg (d.imgText title) d.annOf with
      | error e' => simp [h2, andThen] at e
      | ok s2 =>
        simp only [h2, andThen] at e; injection e with e; subst e
        obtain ⟨a1, b1, c1, f1, g1⟩ := txt_stepN ν P cfg d hν ({ t.cur with annStack := t.cur.annStack ++ [d.annOf (Ann.image src)] } : SubR) s2 _ hfr h2
        refine ⟨a1, ?_, c1, f1, g1⟩
        show s2.annStack.dropLast = t.cur.annStack
        rw [b1]; simp
  case startBlock =>
    exact onCur_tinkN ν P t _ t' _ h fun s1 e => by
      obtain ⟨a, b⟩ := startBlock_tink _ s1 hfr e
      exact ffStep s1 a b (startBlock_ff _ s1 e)
  case endBlock => exact onCur_tinkN ν P t _ t' _ h fun s1 e => by injection e with e; subst e; exact keep0 _ rfl rfl rfl rfl
  case newLine =>
    exact onCur_tinkN ν P t _ t' _ h fun s1 e => by
      obtain ⟨a, b, _⟩ := flushWrapping_tink _ s1 hfr e
      exact ffStep s1 a b (flushWrapping_ff _ s1 e)
  case newLineHard =>
    exact onCur_tinkN ν P t _ t' _ h fun s1 e => by
      obtain ⟨a, b⟩ := newLineHard_tink _ s1 hfr e
      exact ffStep s1 a b (newLineHard_ff _ s1 e)
  case sub p m f r a b => exact absurd rfl (hsub p m f r a b)
  case table _ _ => simp [tableFreeOp] at htab
  case row _ _ _ => simp [tableFreeOp] at htab
  case cell _ _ _ => simp [tableFreeOp] at htab

mutual
/-- programs these theorems cover: no tables, block prefixes that avoid the alphabet (`<pre>` allowed) -/
def preOkOp (P : Ch → Bool) : Op → Bool
  | .sub _ _ first rest _ body => avoids P first && avoids P rest && preOkOps P body
  | .table _ _ => false
  | .row _ _ _ => false
  | .cell _ _ _ => false
  | _ => true
def preOkOps (P : Ch → Bool) : List Op → Bool
  | [] => true
  | op :: ops => preOkOp P op && preOkOps P ops
end

mutual
theorem preOk_tableFree (P : Ch → Bool) : (op : Op) → preOkOp P op = true → tableFreeOp op = true
  | .sub _ _ _ _ _ body, h => by
    simp only [preOkOp, Bool.and_eq_true] at h
    simp only [tableFreeOp]; exact preOks_tableFree P body h.2
  | .table _ _, h => by simp [preOkOp] at h
  | .row _ _ _, h => by simp [preOkOp] at h
  | .cell _ _ _, h => by simp [preOkOp] at h
  | .pushWs _, _ => rfl | .popWs, _ => rfl | .pushPre, _ => rfl | .popPre, _ => rfl | .pushAnn _, _ => rfl | .popAnn, _ => rfl
  | .text _, _ => rfl | .frag _, _ => rfl | .startLink _, _ => rfl | .endLink, _ => rfl | .startAnn _ _ _, _ => rfl
  | .endAnn _ _, _ => rfl | .image _ _, _ => rfl | .startBlock, _ => rfl | .endBlock, _ => rfl | .newLine, _ => rfl | .newLineHard, _ => rfl
theorem preOks_tableFree (P : Ch → Bool) : (ops : List Op) → preOkOps P ops = true → tableFreeOps ops = true
  | [], _ => rfl
  | op :: r, h => by
    simp only [preOkOps, Bool.and_eq_true] at h
    simp only [tableFreeOps, Bool.and_eq_true]
    exact ⟨preOk_tableFree P op h.1, preOks_tableFree P r h.2⟩
end

mutual
theorem runOp_tinkN (ν : Tag → Tag) (P : Ch → Bool) (cfg : Cfg) (d : Deco) (hν : PreView ν d) (hfn : cfg.footnotes = false) :
    (op : Op) → (t t' : RS) → preOkOp P op = true → t.cur.FragsOk → runOp SubR.widthMinus cfg d t op = .ok t' →
    TinkStepN ν P t.cur t'.cur (opTinkN ν cfg d t.cur.annStack t.cur.filterDepth t.cur.preDepth op)
  | .sub p m first rest asBlock body, t, t', hs, hfr, he => by
    simp only [preOkOp, Bool.and_eq_true] at hs
    obtain ⟨⟨h1, h2⟩, hbody⟩ := hs
    simp only [runOp] at he
    cases e1 : t.cur.widthMinus cfg p m with
    | error e => simp [e1, andThen_error_eq] at he
    | ok w =>
      simp only [e1, andThen_ok_eq] at he
      cases e2 : runOps SubR.widthMinus cfg d { links := t.links, cur := ({ width := w, annStack := t.cur.annStack } : SubR) } body with
      | error e => simp [e2, andThen_error_eq] at he
      | ok r =>
        simp only [e2, andThen_ok_eq] at he
        obtain ⟨f1, f2⟩ := fresh_tink w t.cur.annStack
        have hb := runOps_tinkN ν P cfg d hν hfn body _ r hbody f2 e2
        have hnr := runOps_nr cfg d body _ r (preOks_tableFree P body hbody) (by intro l hl; simp at hl) e2
        generalize e3 : (if asBlock = true then t.cur.startBlock else Except.ok t.cur) = r3 at he
        cases r3 with
        | error e => simp [andThen_error_eq] at he
        | ok s1 =>
          simp only [andThen_ok_eq] at he
          have st1 : s1.tink = t.cur.tink ∧ s1.FragsOk ∧ s1.ff = t.cur.ff := by
            split at e3
            · obtain ⟨a, b⟩ := startBlock_tink _ s1 hfr e3
              exact ⟨a, b, startBlock_ff _ s1 e3⟩
            · injection e3 with e3; subst e3; exact ⟨rfl, hfr, rfl⟩
          cases e4 : s1.appendSub r.cur first rest with
          | error e => simp [e4, andThen_error_eq] at he
          | ok s2 =>
            simp only [e4, andThen_ok_eq] at he; injection he with he; subst he
            obtain ⟨a, b⟩ := appendSub_tinkP P s1 r.cur s2 first rest st1.2.1 hb.2.2.2.2 hnr h1 h2 e4
            have hfd := (appendSub_ff s1 r.cur s2 first rest e4).trans st1.2.2
            simp only [SubR.ff, Prod.mk.injEq] at hfd
            have hrink : vw ν P r.cur.tink = pf P (opsTinkN ν cfg d t.cur.annStack 0 0 body).1 := by
              have := hb.1; rw [f1] at this; simpa [vw, pf] using this
            have a' : vw ν P s2.tink = vw ν P s1.tink ++ vw ν P r.cur.tink := by
              rw [vw_eq_map_pf, a, List.map_append, ← vw_eq_map_pf, ← vw_eq_map_pf]
            simp only [opTinkN]
            have key : TinkStepN ν P t.cur s2 ((opsTinkN ν cfg d t.cur.annStack 0 0 body).1, t.cur.annStack, t.cur.filterDepth, t.cur.preDepth) :=
              ⟨by rw [a', st1.1, hrink], hfd.1, hfd.2.2.2.1, hfd.2.1, b⟩
            split
            · exact ⟨key.1, key.2.1, key.2.2.1, key.2.2.2.1, key.2.2.2.2⟩
            · exact key
  | .table _ _, _, _, hs, _, _ => by simp [preOkOp] at hs
  | .row _ _ _, _, _, hs, _, _ => by simp [preOkOp] at hs
  | .cell _ _ _, _, _, hs, _, _ => by simp [preOkOp] at hs
  | .pushPre, t, t', _, hfr, he => stepSimple_tinkN ν P cfg d hν t t' _ hfn hfr (by simp) rfl (by simpa [runOp] using he)
  | .popPre, t, t', _, hfr, he => stepSimple_tinkN ν P cfg d hν t t' _ hfn hfr (by simp) rfl (by simpa [runOp] using he)
  | .pushWs ws, t, t', _, hfr, he => stepSimple_tinkN ν P cfg d hν t t' _ hfn hfr (by simp) rfl (by simpa [runOp] using he)
  | .popWs, t, t', _, hfr, he => stepSimple_tinkN ν P cfg d hν t t' _ hfn hfr (by simp) rfl (by simpa [runOp] using he)
  | .pushAnn a, t, t', _, hfr, he => stepSimple_tinkN ν P cfg d hν t t' _ hfn hfr (by simp) rfl (by simpa [runOp] using he)
  | .popAnn, t, t', _, hfr, he => stepSimple_tinkN ν P cfg d hν t t' _ hfn hfr (by simp) rfl (by simpa [runOp] using he)
  | .text x, t, t', _, hfr, he => stepSimple_tinkN ν P cfg d hν t t' _ hfn hfr (by simp) rfl (by simpa [runOp] using he)
  | .frag n, t, t', _, hfr, he => stepSimple_tinkN ν P cfg d hν t t' _ hfn hfr (by simp) rfl (by simpa [runOp] using he)
  | .startLink h, t, t', _, hfr, he => stepSimple_tinkN ν P cfg d hν t t' _ hfn hfr (by simp) rfl (by simpa [runOp] using he)
  | .endLink, t, t', _, hfr, he => stepSimple_tinkN ν P cfg d hν t t' _ hfn hfr (by simp) rfl (by simpa [runOp] using he)
  | .startAnn a x s, t, t', _, hfr, he => stepSimple_tinkN ν P cfg d hν t t' _ hfn hfr (by simp) rfl (by simpa [runOp] using he)
  | .endAnn x s, t, t', _, hfr, he => stepSimple_tinkN ν P cfg d hν t t' _ hfn hfr (by simp) rfl (by simpa [runOp] using he)
  | .image a b, t, t', _, hfr, he => stepSimple_tinkN ν P cfg d hν t t' _ hfn hfr (by simp) rfl (by simpa [runOp] using he)
  | .startBlock, t, t', _, hfr, he => stepSimple_tinkN ν P cfg d hν t t' _ hfn hfr (by simp) rfl (by simpa [runOp] using he)
  | .endBlock, t, t', _, hfr, he => stepSimple_tinkN ν P cfg d hν t t' _ hfn hfr (by simp) rfl (by simpa [runOp] using he)
  | .newLine, t, t', _, hfr, he => stepSimple_tinkN ν P cfg d hν t t' _ hfn hfr (by simp) rfl (by simpa [runOp] using he)
  | .newLineHard, t, t', _, hfr, he => stepSimple_tinkN ν P cfg d hν t t' _ hfn hfr (by simp) rfl (by simpa [runOp] using he)
theorem runOps_tinkN (ν : Tag → Tag) (P : Ch → Bool) (cfg : Cfg) (d : Deco) (hν : PreView ν d) (hfn : cfg.footnotes = false) :
    (ops : List Op) → (t t' : RS) → preOkOps P ops = true → t.cur.FragsOk → runOps SubR.widthMinus cfg d t ops = .ok t' →
    TinkStepN ν P t.cur t'.cur (opsTinkN ν cfg d t.cur.annStack t.cur.filterDepth t.cur.preDepth ops)
  | [], t, t', _, hfr, he => by simp [runOps] at he; subst he; exact ⟨by simp [opsTinkN, pf], rfl, rfl, rfl, hfr⟩
  | op :: ops, t, t', hs, hfr, he => by
    simp only [preOkOps, Bool.and_eq_true] at hs
    simp only [runOps] at he
    cases h1 : runOp SubR.widthMinus cfg d t op with
    | error e => simp [h1, andThen_error_eq] at he
    | ok t1 =>
      simp only [h1, andThen_ok_eq] at he
      obtain ⟨a1, a2, a3, a4, a5⟩ := runOp_tinkN ν P cfg d hν hfn op t t1 hs.1 hfr h1
      obtain ⟨b1, b2, b3, b4, b5⟩ := runOps_tinkN ν P cfg d hν hfn ops t1 t' hs.2 a5 he
      simp only [opsTinkN]
      rw [a2, a3, a4] at b1 b2 b3 b4
      exact ⟨by rw [b1, a1, pf_append, List.append_assoc], b2, b3, b4, b5⟩
end

/-- **C09 at the level of whole renderings, `<pre>` included** (no tables, footnotes off): under a view that identifies the
    continuation flag, on every alphabet the block prefixes avoid, the tagged cells of the lines `renderTree` returns are
    exactly those of the program, in order -/
theorem renderTree_tinkN (ν : Tag → Tag) (P : Ch → Bool) (cfg : Cfg) (d : Deco) (hν : PreView ν d) (w : Nat) (tree : RNode) (ls : List RLine)
    (hfn : cfg.footnotes = false) (hs : preOkOps P (compile cfg d tree) = true) (h : renderTree cfg d w tree = .ok ls) :
    vw ν P (ls.flatMap trink) = pf P (opsTinkN ν cfg d [] 0 0 (compile cfg d tree)).1 := by
  unfold renderTree at h
  split at h
  · simp at h
  · cases h1 : runOps SubR.widthMinus cfg d { cur := { width := w } } (compile cfg d tree) with
    | error e => simp [h1, andThen_error_eq] at h
    | ok t =>
      simp only [h1, andThen_ok_eq] at h
      obtain ⟨f1, f2⟩ := fresh_tink w []
      obtain ⟨a1, _, _, _, a5⟩ := runOps_tinkN ν P cfg d hν hfn _ _ t hs f2 h1
      have hf0 : footTexts cfg t.links = [] := by simp [footTexts, hfn]
      rw [hf0] at h
      simp only [List.isEmpty_nil, if_true] at h
      rw [intoLines_tink t.cur ls a5 h, a1, f1]
      simp [vw, pf]

end H2T
