//! Observations: running the real library, serialising a case for the Lean model, parsing the model's answer.

use crate::cfg::{Cfg, Deco, FamDeco, Route};
use crate::rcdom::{Handle, NodeData, RcDom};
use html2text::config::{self, Config};
use html2text::render::{RichAnnotation, TaggedLine, TaggedLineElement, TextDecorator, TrivialDecorator};
use html5ever::tendril::TendrilSink;
use std::fmt::Write as _;
use unicode_width::UnicodeWidthChar;

/// one element of a canonical line: a character with its tag vector (canonical text), or a fragment marker
#[derive(Clone, Debug, PartialEq, Eq, Hash)]
pub enum El {
    Ch(char, String),
    Frag(String),
}

#[derive(Clone, Debug, PartialEq)]
pub enum Obs {
    Ok(Vec<Vec<El>>),
    Narrow,
    CssErr,
    /// model only: `panic <site>`; implementation: a caught panic with its message
    Panic(String),
    /// model: `hang <site>`; implementation: watchdog expired
    Hang(String),
    /// anything else (I/O error, `Fail`, protocol error)
    Other(String),
}

impl Obs {
    pub fn class(&self) -> &'static str {
        match self {
            Obs::Ok(_) => "ok",
            Obs::Narrow => "narrow",
            Obs::CssErr => "csserr",
            Obs::Panic(_) => "panic",
            Obs::Hang(_) => "hang",
            Obs::Other(_) => "other",
        }
    }
    pub fn lines(&self) -> Option<&Vec<Vec<El>>> {
        match self {
            Obs::Ok(l) => Some(l),
            _ => None,
        }
    }
    /// the text of each line, fragment markers dropped
    pub fn text_lines(&self) -> Option<Vec<String>> {
        self.lines().map(|ls| ls.iter().map(|l| line_text(l)).collect())
    }
    pub fn short(&self) -> String {
        match self {
            Obs::Ok(ls) => {
                let t: Vec<String> = ls.iter().map(|l| line_text_frags(l)).collect();
                format!("ok {:?}", t)
            }
            Obs::Panic(s) => format!("panic {s}"),
            Obs::Hang(s) => format!("hang {s}"),
            Obs::Other(s) => format!("other {s}"),
            o => o.class().to_string(),
        }
    }
}

pub fn line_text(l: &[El]) -> String {
    l.iter().filter_map(|e| if let El::Ch(c, _) = e { Some(*c) } else { None }).collect()
}
pub fn line_text_frags(l: &[El]) -> String {
    let mut s = String::new();
    let mut cur = String::new();
    for e in l {
        match e {
            El::Ch(c, t) => {
                // show the tag vector where it changes (all-unit tags are not shown)
                let shown = if t.chars().all(|x| x == 'U' || x == ';') { "" } else { t.as_str() };
                if shown != cur {
                    let _ = write!(s, "⟨{shown}⟩");
                    cur = shown.to_string();
                }
                s.push(*c)
            }
            El::Frag(n) => {
                let _ = write!(s, "⟦#{n}⟧");
            }
        }
    }
    s
}
pub fn cw(c: char) -> usize {
    UnicodeWidthChar::width(c).unwrap_or(0)
}
/// display width of a line as the sum of character widths
pub fn line_width(l: &[El]) -> usize {
    l.iter().map(|e| if let El::Ch(c, _) = e { cw(*c) } else { 0 }).sum()
}

// ---------------------------------------------------------------------------------------------
// the oracle DOM: parsed by html5ever into the harness's own (frozen) sink

pub fn parse(html: &[u8]) -> RcDom {
    let opts = html5ever::driver::ParseOpts {
        tree_builder: html5ever::tree_builder::TreeBuilderOpts { drop_doctype: true, ..Default::default() },
        ..Default::default()
    };
    html5ever::parse_document(RcDom::default(), opts).from_utf8().read_from(&mut &html[..]).unwrap()
}

fn chs(s: &str, out: &mut String) {
    for c in s.chars() {
        let w = UnicodeWidthChar::width(c);
        let cls = (c.is_whitespace() as u8) | ((w.is_none() as u8) << 1);
        let _ = write!(out, " {}:{}:{}", c as u32, w.unwrap_or(0), cls);
    }
}
fn pstr(s: &str, out: &mut String) {
    let _ = write!(out, " {}", s.chars().count());
    chs(s, out);
}

fn ser(h: &Handle, out: &mut String, depth: usize) {
    match &h.data {
        NodeData::Document => {
            let k = h.children.borrow();
            let _ = write!(out, " D {}", k.len());
            for c in k.iter() {
                ser(c, out, depth + 1);
            }
        }
        NodeData::Text { contents } => {
            let t = contents.borrow();
            let _ = write!(out, " T {}", t.chars().count());
            chs(&t, out);
        }
        NodeData::Comment { .. } => out.push_str(" C"),
        NodeData::Element { name, attrs, .. } => {
            let html = &*name.ns == "http://www.w3.org/1999/xhtml";
            let a = attrs.borrow();
            let _ = write!(out, " E {} {} {}", sanitize(&name.local), html as u8, a.len());
            for at in a.iter() {
                let _ = write!(out, " {} {}", sanitize(&at.name.local), at.value.chars().count());
                chs(&at.value, out);
            }
            let k = h.children.borrow();
            let _ = write!(out, " {}", k.len());
            for c in k.iter() {
                ser(c, out, depth + 1);
            }
        }
        _ => out.push_str(" O"),
    }
}
/// element and attribute names travel as one whitespace-free token
fn sanitize(s: &str) -> String {
    if s.is_empty() {
        return "\u{1}".into();
    }
    s.chars().map(|c| if c.is_whitespace() || c == '\u{0}' { '\u{1}' } else { c }).collect()
}

pub fn dom_depth(h: &Handle) -> usize {
    // iterative: deep documents must not overflow the harness's own stack
    let mut max = 0;
    let mut st = vec![(h.clone(), 1usize)];
    while let Some((n, d)) = st.pop() {
        if d > max {
            max = d;
        }
        for c in n.children.borrow().iter() {
            st.push((c.clone(), d + 1));
        }
    }
    max
}

fn enc_css(o: &Option<String>) -> String {
    match o {
        None => "0".to_string(),
        Some(t) => {
            let v: Vec<String> = t.chars().map(|c| (c as u32).to_string()).collect();
            format!("{} {}", v.len() + 1, v.join(" ")).trim_end().to_string()
        }
    }
}

/// One request line for the Lean driver (protocol: lean/Driver.lean `handle`).
pub fn proto_line(html: &[u8], cfg: &Cfg, width: usize) -> String {
    let dom = parse(html);
    let mut p = String::new();
    let _ = write!(p, "{} {} {}", width, cfg.flags(), cfg.deco.code());
    if let Deco::Fam(f) = &cfg.deco {
        for s in &f.0 {
            pstr(s, &mut p);
        }
    }
    let _ = write!(
        p,
        " {} {} {} {} {}",
        cfg.max_wrap.map(|m| (m as u128) + 1).unwrap_or(0),
        cfg.min_wrap,
        cfg.use_doc_css as u8,
        enc_css(&cfg.agent_css),
        enc_css(&cfg.user_css)
    );
    // character table for CSS `content` strings: every character of the sheets and the document
    let mut seen = std::collections::BTreeSet::new();
    for t in [&cfg.agent_css, &cfg.user_css].into_iter().flatten() {
        for c in t.chars() {
            seen.insert(c);
        }
    }
    if cfg.use_doc_css || cfg.agent_css.is_some() || cfg.user_css.is_some() {
        for c in String::from_utf8_lossy(html).chars() {
            seen.insert(c);
        }
    }
    let _ = write!(p, " {}", seen.len());
    let tmp: String = seen.iter().collect();
    chs(&tmp, &mut p);
    ser(&dom.document, &mut p, 0);
    p
}

// ---------------------------------------------------------------------------------------------
// the implementation

pub trait TagName {
    fn name(&self) -> String;
}
impl TagName for () {
    fn name(&self) -> String {
        "U".into()
    }
}
fn cps(s: &str) -> String {
    s.chars().map(|c| (c as u32).to_string()).collect::<Vec<_>>().join(",")
}
impl TagName for RichAnnotation {
    fn name(&self) -> String {
        use RichAnnotation::*;
        match self {
            Default => "D".to_string(),
            Link(u) => format!("L{}", cps(u)),
            Image(u) => format!("I{}", cps(u)),
            Emphasis => "E".into(),
            Strong => "S".into(),
            Strikeout => "K".into(),
            Code => "C".into(),
            Preformat(false) => "P".into(),
            Preformat(true) => "Q".into(),
            Colour(c) => format!("F{}.{}.{}", c.r, c.g, c.b),
            BgColour(c) => format!("B{}.{}.{}", c.r, c.g, c.b),
            _ => "?".into(),
        }
    }
}

pub fn canon_lines<A: TagName + std::fmt::Debug + Clone + PartialEq + Eq + Default>(ls: &[TaggedLine<Vec<A>>]) -> Vec<Vec<El>> {
    ls.iter()
        .map(|l| {
            let mut out = Vec::new();
            for e in l.iter() {
                match e {
                    TaggedLineElement::FragmentStart(n) => out.push(El::Frag(n.clone())),
                    TaggedLineElement::Str(ts) => {
                        let tg = ts.tag.iter().map(|a| a.name()).collect::<Vec<_>>().join(";");
                        for c in ts.s.chars() {
                            out.push(El::Ch(c, tg.clone()));
                        }
                    }
                }
            }
            out
        })
        .collect()
}

pub fn canon_string(t: &str) -> Vec<Vec<El>> {
    let mut parts: Vec<&str> = t.split('\n').collect();
    if parts.last() == Some(&"") {
        parts.pop();
    }
    parts.iter().map(|l| l.chars().map(|c| El::Ch(c, String::new())).collect()).collect()
}

pub fn build_config<D: TextDecorator>(base: Config<D>, cfg: &Cfg) -> Result<Config<D>, html2text::Error> {
    let mut c = base;
    if cfg.decorate {
        c = c.do_decorate();
    }
    c = c.link_footnotes(cfg.footnotes);
    if cfg.overflow {
        c = c.allow_width_overflow();
    }
    if cfg.pad {
        c = c.pad_block_width();
    }
    if cfg.raw {
        c = c.raw_mode(true);
    }
    if cfg.noborders {
        c = c.no_table_borders();
    }
    c = c.unicode_strikeout(!cfg.nostrike);
    if cfg.nolinkwrap {
        c = c.no_link_wrapping();
    }
    if let Some(m) = cfg.max_wrap {
        c = c.max_wrap_width(m);
    }
    c = c.min_wrap_width(cfg.min_wrap);
    if cfg.use_doc_css {
        c = c.use_doc_css();
    }
    if let Some(t) = &cfg.agent_css {
        c = c.add_agent_css(t)?;
    }
    if let Some(t) = &cfg.user_css {
        c = c.add_css(t)?;
    }
    Ok(c)
}

fn run_with<D: TextDecorator>(base: Config<D>, html: &[u8], cfg: &Cfg, width: usize) -> Result<Vec<Vec<El>>, html2text::Error>
where
    D::Annotation: TagName,
{
    let c = build_config(base, cfg)?;
    match cfg.route {
        Route::Str => c.string_from_read(html, width).map(|s| canon_string(&s)),
        Route::Lines => c.lines_from_read(html, width).map(|l| canon_lines(&l)),
    }
}

/// call the library directly (no isolation): used inside the watchdog thread and by `single`
pub fn run_impl_raw(html: &[u8], cfg: &Cfg, width: usize) -> Obs {
    let r = match &cfg.deco {
        Deco::Plain => run_with(config::plain_no_decorate(), html, cfg, width),
        Deco::Rich => run_with(config::rich(), html, cfg, width),
        Deco::Trivial => run_with(config::with_decorator(TrivialDecorator::new()), html, cfg, width),
        Deco::Fam(f) => run_with(config::with_decorator(FamDeco(f.clone())), html, cfg, width),
    };
    match r {
        Ok(l) => Obs::Ok(l),
        Err(html2text::Error::TooNarrow) => Obs::Narrow,
        Err(html2text::Error::CssParseError) => Obs::CssErr,
        Err(e) => Obs::Other(format!("{e:?}")),
    }
}

thread_local! {
    static LAST_PANIC: std::cell::RefCell<String> = std::cell::RefCell::new(String::new());
}

pub fn install_panic_hook() {
    std::panic::set_hook(Box::new(|info| {
        let loc = info.location().map(|l| format!("{}:{}", l.file(), l.line())).unwrap_or_default();
        let msg = if let Some(s) = info.payload().downcast_ref::<&str>() {
            s.to_string()
        } else if let Some(s) = info.payload().downcast_ref::<String>() {
            s.clone()
        } else {
            "?".into()
        };
        LAST_PANIC.with(|p| *p.borrow_mut() = format!("{loc}: {msg}"));
    }));
}

/// run `f` under catch_unwind with a watchdog; a timed-out thread is abandoned
pub fn guarded<T: Send + 'static>(secs: u64, f: impl FnOnce() -> T + Send + 'static) -> Result<T, Obs> {
    let (tx, rx) = std::sync::mpsc::channel();
    let b = std::thread::Builder::new().stack_size(256 << 20);
    let _ = b.spawn(move || {
        let r = std::panic::catch_unwind(std::panic::AssertUnwindSafe(f));
        let r = r.map_err(|_| LAST_PANIC.with(|p| p.borrow().clone()));
        let _ = tx.send(r);
    });
    match rx.recv_timeout(std::time::Duration::from_secs(secs)) {
        Ok(Ok(t)) => Ok(t),
        Ok(Err(m)) => Err(Obs::Panic(m)),
        Err(_) => Err(Obs::Hang(format!("no result within {secs}s"))),
    }
}

pub fn run_impl(html: &[u8], cfg: &Cfg, width: usize, secs: u64) -> Obs {
    let h = html.to_vec();
    let c = cfg.clone();
    match guarded(secs, move || run_impl_raw(&h, &c, width)) {
        Ok(o) => o,
        Err(o) => o,
    }
}

// ---------------------------------------------------------------------------------------------
// the model's answer

pub fn parse_model_line(s: &str) -> Obs {
    let s = s.trim_end_matches('\n');
    if s == "narrow" {
        return Obs::Narrow;
    }
    if s == "csserr" {
        return Obs::CssErr;
    }
    if let Some(r) = s.strip_prefix("panic ") {
        return Obs::Panic(r.into());
    }
    if let Some(r) = s.strip_prefix("hang ") {
        return Obs::Hang(r.into());
    }
    if let Some(r) = s.strip_prefix("ok ") {
        let mut it = r.splitn(2, " |");
        let n: usize = match it.next().and_then(|x| x.trim().parse().ok()) {
            Some(n) => n,
            None => return Obs::Other(format!("bad model line: {s}")),
        };
        let rest = it.next().unwrap_or("");
        let mut lines = Vec::new();
        if n > 0 {
            // lines are separated by " | "; the first is preceded by a single space
            let body = rest.strip_prefix(' ').unwrap_or(rest);
            for l in body.split(" | ") {
                let mut v = Vec::new();
                for tok in l.split(' ') {
                    if tok.is_empty() {
                        continue;
                    }
                    if let Some(f) = tok.strip_prefix('#') {
                        let name: String = f.split(',').filter(|x| !x.is_empty()).filter_map(|x| x.parse::<u32>().ok()).filter_map(char::from_u32).collect();
                        v.push(El::Frag(name));
                    } else {
                        let (cp, tag) = match tok.find('/') {
                            Some(i) => (&tok[..i], &tok[i + 1..]),
                            None => (tok, ""),
                        };
                        match cp.parse::<u32>().ok().and_then(char::from_u32) {
                            Some(c) => v.push(El::Ch(c, tag.to_string())),
                            None => return Obs::Other(format!("bad model token {tok}")),
                        }
                    }
                }
                lines.push(v);
            }
            if lines.len() != n {
                // an empty trailing line list (n lines, all empty) splits differently
                while lines.len() < n {
                    lines.push(Vec::new());
                }
                lines.truncate(n);
            }
        }
        return Obs::Ok(lines);
    }
    Obs::Other(format!("bad model line: {s}"))
}

/// Pipe request lines through the compiled Lean driver, in parallel chunks.
pub fn run_model(model: &str, reqs: &[String], jobs: usize) -> Vec<String> {
    use std::io::Write;
    use std::process::{Command, Stdio};
    if reqs.is_empty() {
        return vec![];
    }
    let jobs = jobs.max(1).min(reqs.len());
    let chunk = (reqs.len() + jobs - 1) / jobs;
    let mut out: Vec<Vec<String>> = Vec::new();
    std::thread::scope(|s| {
        let hs: Vec<_> = reqs
            .chunks(chunk)
            .map(|ch| {
                s.spawn(move || {
                    let mut child = Command::new(model).stdin(Stdio::piped()).stdout(Stdio::piped()).stderr(Stdio::inherit()).spawn().expect("cannot start the Lean model driver");
                    let mut stdin = child.stdin.take().unwrap();
                    let data: String = ch.iter().map(|l| format!("{l}\n")).collect();
                    let w = std::thread::spawn(move || {
                        let _ = stdin.write_all(data.as_bytes());
                    });
                    let o = child.wait_with_output().expect("model driver failed");
                    let _ = w.join();
                    let text = String::from_utf8_lossy(&o.stdout).to_string();
                    let mut v: Vec<String> = text.lines().map(|x| x.to_string()).collect();
                    while v.len() < ch.len() {
                        v.push("other model-driver-died".into());
                    }
                    v
                })
            })
            .collect();
        for h in hs {
            out.push(h.join().unwrap());
        }
    });
    out.into_iter().flatten().collect()
}
