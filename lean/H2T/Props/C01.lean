import H2T.Props.C06
import H2T.Props.C17
import H2T.Props.C20
import H2T.Lemmas.WrapInv
import H2T.Lemmas.DomTotal

/-! # C01 — rendering is total: never panics, never hangs

In the model every `unwrap`, unsigned subtraction, slice index and assertion of the modelled code is an
explicit `Err.panic` branch and every loop whose termination is not structural takes fuel and returns
`Err.hang` when it runs out; "total" means those branches are unreachable.  Status: **partial**.
Proved here: the checked-arithmetic sites that consume attacker-controlled numbers stay in range (ordered-list
numbers, colspans); the zero-width guard lets no zero-width block reach the loops that need progress; the
pending-whitespace loop terminates and never meets a missing space tag; the table shrink loop terminates and
never decrements a zero (C06); the selector matcher never panics (C20); the CSS parser cannot panic by
construction (C17); the wrap layer keeps `line.len ≤ width`, which rules out the `width − line.len`
underflows (C02's invariant).  **Not expressible in the model**: stack depth, allocation and running time —
recursive `Drop`/`Clone` of deep trees, selector recursion and the exponential descendant-combinator
backtracking are searched for by isolated child-process runs and are known findings.
**Whole-run theorems** (section "the whole renderer"): the wrap layer is total in every mode (`text_layer_total`: any
characters, any white-space mode, any tags, with or without overflow — hard wrap, tab and pending-whitespace loops have
enough fuel, no `unwrap` of a missing space tag, no underflow), and **rendering any render tree is total** for every
configuration, decorator and width (`render_total`): the `pre_depth` counter cannot underflow because the programs
`compile` emits are balanced (`Balance.compile_frame`); column allocation always returns; stacked rows are total;
border collapsing always finds the previous line it expects — with borders the last line before a row is a rule, without
borders no cell ever holds a rule; column indices stay in bounds under `tableOk` (every row's cells lie inside the
table's `ncols` columns — which **every tree `build` produces satisfies** (`build_trees_renderable`: `RenderTable::new`
gives a table as many columns as its widest row; `insert_child`, `colspan=0` repair and rank remapping preserve it);
the driver also evaluates `tableOk` on every built tree).  Together with "the selector matcher never panics, so
`build` never fails", this gives the **end-to-end statement on the model**, `pipeline_total`: for every DOM rooted at a
document node, every configuration, decorator, width and agent/user/document CSS, the outcome is lines, `TooNarrow` or a
CSS parse error — never a panic, never a hang.  The CSS parser is part of it: every token consumes input
(`Css.parseToken_lt`), so the at-rule skipper's fuel is never exhausted and `add_css` never hangs (`add_css_never_hangs`).
What remains outside: html5ever, and stack/allocation/time (see above). -/

namespace H2T.C01

/-! ## arithmetic on attacker-controlled numbers -/

/-- saturating i64 arithmetic stays inside i64 -/
theorem satI64_range (x : Int) : i64Min ≤ satI64 x ∧ satI64 x ≤ i64Max := by
  unfold satI64 i64Min i64Max
  split
  · omega
  · split <;> omega

/-- every ordered-list number the renderer formats is a valid `i64`, for every `start` attribute and item count
    (before fix cc72d4c `start + n − 1` overflowed for `start` near `i64::MAX`) -/
theorem ol_numbers_in_range (start : Int) (n k : Nat) :
    (i64Min ≤ olItemNumber start k ∧ olItemNumber start k ≤ i64Max) ∧
    (i64Min ≤ olMaxNumber start n ∧ olMaxNumber start n ≤ i64Max) :=
  ⟨satI64_range _, satI64_range _⟩

/-- a colspan is clamped to 1000 (fix e8cc082), so column sums of a row stay far below `usize::MAX` -/
theorem colspan_clamped (v : Nat) : min v 1000 ≤ 1000 := Nat.min_le_right _ _
theorem row_sum_bounded (spans : List Nat) (h : ∀ s ∈ spans, s ≤ 1000) : spans.sum ≤ 1000 * spans.length := by
  induction spans with
  | nil => simp
  | cons s ss ih =>
    have := h s (by simp)
    have := ih (fun x hx => h x (by simp [hx]))
    simp [Nat.mul_succ]; omega

/-! ## loops that need progress -/

/-- after the zero-width guard, text is only ever processed by a block of positive width (fix 30cd539: with
    `max_wrap_width(0)` the whitespace and tab loops used to spin forever) -/
theorem guard_gives_positive_width (b b' : WB) (cs : List Ch) (h : b.zeroGuard cs = .ok b') :
    cs = [] ∨ 0 < b'.width := by
  unfold WB.zeroGuard at h
  by_cases hw : b.width = 0
  · simp only [hw, if_true] at h
    by_cases ho : b.overflow = true
    · simp only [ho, if_true] at h; injection h with h; subst h; right; simp
    · simp only [ho] at h
      cases cs with
      | nil => left; rfl
      | cons c cs => simp at h
  · simp only [hw, if_false] at h; injection h with h; subst h; right; omega

/-- **The pending-whitespace loop terminates.**  With a positive width, a recorded space tag and fuel above the
    number of pending columns, `flush_word`'s `while self.wslen > 0` loop returns: it neither runs out of fuel
    (hang) nor meets a missing tag (the `spacetag.unwrap()` panic). -/
theorem wsLoop_total : ∀ (fuel : Nat) (b : WB), 0 < b.width → (0 < b.wslen → b.spacetag.isSome) → b.wslen < fuel →
    ∃ b', b.wsLoop fuel = .ok b' := by
  intro fuel
  induction fuel with
  | zero => intro b _ _ h; omega
  | succ fuel ih =>
    intro b hw ht hf
    simp only [WB.wsLoop]
    by_cases hz : b.wslen = 0
    · simp [hz]
    · simp only [hz, if_false]
      have hpos : 0 < b.wslen := Nat.pos_of_ne_zero hz
      cases hs : b.spacetag with
      | none => have := ht hpos; simp [hs] at this
      | some t =>
        simp only
        have hcopy : 0 < min b.wslen b.width := by
          rcases Nat.le_total b.wslen b.width with h | h
          · rw [Nat.min_eq_left h]; exact hpos
          · rw [Nat.min_eq_right h]; exact hw
        apply ih
        · -- the width is unchanged by pushing spaces and flushing the line
          show 0 < (if min b.wslen b.width = b.width then (b.pushWs (min b.wslen b.width) t).flushLine else b.pushWs (min b.wslen b.width) t).width
          split
          · unfold WB.flushLine; split <;> simpa [WB.pushWs, WB.forceFlush] using hw
          · simpa [WB.pushWs] using hw
        · intro _
          show (if min b.wslen b.width = b.width then (b.pushWs (min b.wslen b.width) t).flushLine else b.pushWs (min b.wslen b.width) t).spacetag.isSome
          split
          · unfold WB.flushLine; split <;> simp [WB.pushWs, WB.forceFlush, hs]
          · simp [WB.pushWs, hs]
        · show (if min b.wslen b.width = b.width then (b.pushWs (min b.wslen b.width) t).flushLine else b.pushWs (min b.wslen b.width) t).wslen - min b.wslen b.width < fuel
          have hwl : (if min b.wslen b.width = b.width then (b.pushWs (min b.wslen b.width) t).flushLine else b.pushWs (min b.wslen b.width) t).wslen = b.wslen := by
            split
            · unfold WB.flushLine; split <;> simp [WB.pushWs, WB.forceFlush]
            · simp [WB.pushWs]
          rw [hwl]; omega

/-- the fuel `flush_word` supplies (`wslen + 1`) is enough -/
theorem wsLoop_fuel_enough (b : WB) : b.wslen < b.wslen + 1 := Nat.lt_succ_self _

/-- the column shrink loop of tables terminates and never underflows (C06) -/
theorem shrinkLoop_total (width : Nat) (cs : List SizeEst) (ws : List Nat)
    (hl : ws.length ≤ cs.length) (hg : ws.length - 1 ≤ width) :
    ∃ ws', shrinkLoop width cs (ws.sum + 2) ws = .ok ws' :=
  let ⟨ws', h, _⟩ := C06.allocation_fits width cs (ws.sum + 2) ws hl hg (by omega)
  ⟨ws', h⟩

/-! ## CSS -/

/-- selector matching never panics, for every selector and every node (C20) -/
theorem matcher_never_panics (s : Css.Selector) (chain : List Css.Frame) : Css.selMatches s chain ≠ .panic :=
  (C20.selMatches_decides s chain).2

/-- adding CSS has one of three outcomes — parsed, rejected, or the at-rule skipper running out of fuel — and
    none of them is a panic (C17) -/
theorem add_css_total (css : Css.Inp) :
    (∃ rs, Css.doAddCss css = .ok rs) ∨ Css.doAddCss css = .err ∨ Css.doAddCss css = .hang :=
  C17.add_css_outcomes css

/-! ## the wrap layer cannot underflow -/

/-- `flush_word` computes `self.width - self.line.len`; under the wrap-layer invariant (kept by every operation:
    `addText_inv`) the subtraction cannot underflow, so the model's `panic "space_in_line"` branch is dead -/
theorem no_space_in_line_underflow (b : WB) (hi : b.Inv) : ¬ (b.linelen > b.width) := by
  have := hi.line_fit; omega

/-! ## the whole renderer -/

/-- **the text layer is total**: from any block that satisfies the wrap invariant (every block reachable from
    `WrappedBlock::new` does), `add_text` with any characters in any white-space mode returns a block or `TooNarrow`,
    and so does `into_lines` afterwards -/
theorem text_layer_total (b : WB) (m : WS) (mt wt : Tag) (cs : List Ch) (hi : b.Inv) (hl : b.Live) :
    Safe b.overflow (b.addText m mt wt cs) ∧ ∀ b', b.addText m mt wt cs = .ok b' → b'.Inv ∧ b'.Live ∧ Safe b'.overflow b'.finish :=
  ⟨addText_safe b m mt wt cs hi, fun b' h =>
    let r := addText_inv' m mt wt cs b b' hi hl h
    ⟨r.1, r.2.1, finish_safe b' r.1 r.2.1⟩⟩

/-- a new block of any width (0 included), with or without overflow and padding, satisfies the premises -/
theorem new_block_ok (w : Nat) (pad ov : Bool) :
    ({ width := w, padBlocks := pad, overflow := ov } : WB).Inv ∧ ({ width := w, padBlocks := pad, overflow := ov } : WB).Live :=
  ⟨new_inv w pad ov, Or.inr (by simp [TLine.noContent])⟩

/-- **rendering a table-free tree is total**: lines or `TooNarrow`, for every configuration, decorator and width -/
theorem render_total_table_free (cfg : Cfg) (d : Deco) (w : Nat) (tree : RNode) (h : noTable tree = true) :
    ∀ e, renderTree cfg d w tree = .error e → e = .tooNarrow :=
  (renderTree_total_noTable cfg d w tree h).only_narrow

/-- **rendering any tree is total** (tables included): lines or `TooNarrow`, for every configuration, decorator and
    width, provided every table's cells lie inside its columns -/
theorem render_total (cfg : Cfg) (d : Deco) (w : Nat) (tree : RNode) (h : tableOk tree = true) :
    ∀ e, renderTree cfg d w tree = .error e → e = .tooNarrow :=
  (renderTree_total cfg d w tree h).only_narrow

theorem render_no_panic_no_hang (cfg : Cfg) (d : Deco) (w : Nat) (tree : RNode) (h : tableOk tree = true) :
    (∀ s, renderTree cfg d w tree ≠ .error (.panic s)) ∧ (∀ s, renderTree cfg d w tree ≠ .error (.hang s)) := by
  constructor <;> intro s hs <;> have := render_total cfg d w tree h _ hs <;> simp at this

/-- the hypothesis is necessary: a cell outside the table's columns makes the model panic at the `col_sizes` index
    (in the library `RenderTable::new` rules this out) -/
example : (match renderTree {} Deco.plain 20 (.table {} [.row {} [.cell {} 1 [.text {} (strCh "a")], .cell {} 1 [.text {} (strCh "b")]]] 1) with
    | .error (.panic _) => true | _ => false) = true := by decide +kernel

/-- **every render tree the DOM → render tree pass produces is renderable** (satisfies the hypothesis of `render_total`) -/
theorem build_trees_renderable (bc : BuildCfg) (n : Node) (up : List Css.Frame) (idx : Nat) (r : RNode)
    (h : build bc up idx n = some (some r)) : tableOk r = true :=
  build_ok bc n up idx r h

/-- the DOM → render tree pass never fails (the model's `computed_style` panic outcome is unreachable) -/
theorem build_never_fails (bc : BuildCfg) (n : Node) (up : List Css.Frame) (idx : Nat) : ∃ r, build bc up idx n = some r :=
  build_some bc n up idx

/-- **adding CSS never hangs**: for every string, `add_css` returns rules or a parse error (before fix ca75076 a lone `#`
    was a token that consumed nothing and the at-rule skipper looped on it) -/
theorem add_css_never_hangs (css : Css.Inp) : (∃ rs, Css.doAddCss css = .ok rs) ∨ Css.doAddCss css = .err :=
  Css.doAddCss_no_hang css

/-- **C01 on the whole model pipeline** (CSS → DOM → style → render tree → lines) -/
theorem pipeline_total (cfg : Cfg) (d : Deco) (w : Nat) (useDoc : Bool) (agentCss userCss : Option (List Char))
    (ci : CharInfo) (depth : Nat) (kids : List Node) :
    match renderDom cfg d w useDoc agentCss userCss ci depth (.doc kids) with
    | .lines _ => True
    | .narrow => True
    | .cssErr => True
    | .hang _ => False
    | .panic _ => False := by
  have := renderDom_acceptable cfg d w useDoc agentCss userCss ci depth kids
  cases h : renderDom cfg d w useDoc agentCss userCss ci depth (.doc kids) <;> rw [h] at this <;> exact this

/-- in particular the outcome is never a panic or a hang -/
theorem render_table_free_no_panic_no_hang (cfg : Cfg) (d : Deco) (w : Nat) (tree : RNode) (h : noTable tree = true) :
    (∀ s, renderTree cfg d w tree ≠ .error (.panic s)) ∧ (∀ s, renderTree cfg d w tree ≠ .error (.hang s)) := by
  constructor <;> intro s hs <;> have := render_total_table_free cfg d w tree h _ hs <;> simp at this

/-! non-vacuity: the witnesses of the repaired hangs and overflows now have values -/
example : olMaxNumber 9223372036854775807 2 = 9223372036854775806 ∧ olItemNumber 9223372036854775807 1 = 9223372036854775807 := by decide
example : (({ width := 0 } : WB).addText .pre [] [] (strCh " a ")).toOption = none := by decide
example : (match ({ width := 0 } : WB).addText .pre [] [] (strCh " a ") with | .error .tooNarrow => true | _ => false) = true := by decide
example : ∃ b', ({ width := 3, wslen := 7, spacetag := some [] } : WB).wsLoop 8 = .ok b' :=
  wsLoop_total 8 _ (by decide) (fun _ => rfl) (by decide)
/-- the document of a repaired hang (`min_wrap_width(0)`, an `ol` whose marker fills the width, `pre` inside) is
    table-free; at width 4 it is now `TooNarrow`, at width 5 it renders to 10 lines -/
example :
    let tree : RNode := .box {} (.ol (-1)) [.box {} .li [.box { ws := some .pre, pre := true } .block [.text {} (strCh " ccc hello \n x   ")]]]
    noTable tree = true ∧ (match renderTree { minWrap := 0 } Deco.rich 4 tree with | .error .tooNarrow => true | _ => false) = true ∧
    (renderTree { minWrap := 0 } Deco.rich 5 tree).toOption.map (·.length) = some 10 := by
  decide +kernel
/-- a table with a colspan row, a nested table and a link satisfies `tableOk` and renders, with and without borders -/
example :
    let tree : RNode := .table {} [.row {} [.cell {} 1 [.text {} (strCh "aa")], .cell {} 1 [.table {} [.row {} [.cell {} 1 [.text {} (strCh "x")], .cell {} 1 [.text {} (strCh "y")]]] 2]],
                                   .row {} [.cell {} 2 [.text {} (strCh "cccc dddd")]]] 2
    tableOk tree = true ∧ (renderTree {} Deco.plain 12 tree).toOption.isSome = true ∧
    (renderTree { drawBorders := false } Deco.plain 12 tree).toOption.isSome = true := by
  decide +kernel

end H2T.C01
