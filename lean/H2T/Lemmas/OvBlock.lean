import H2T.Lemmas.OvWrap
import H2T.Lemmas.CfgCongr

/-! C11, block and program layers: a rendering that succeeds without `allow_width_overflow` is unchanged by the flag.
    The run with the flag is simulated step by step: its state is the original one except that wrapping blocks carry the
    flag (and a zero-width block, which can only ever hold markers when the run without the flag succeeds, has been
    widened to one column by the first `add_text`). -/

namespace H2T

/-- a block holding nothing but markers -/
def WB.Zero (b : WB) : Prop := b.text = [] ∧ b.line = [] ∧ b.word.noContent = true

/-- `b'` is the block of the run with overflow allowed, next to `b` of a run succeeding without -/
def OvR (b b' : WB) : Prop :=
  b.Inv ∧ b.overflow = false ∧ (b.width = 0 → b.Zero) ∧ (b' = b.ov ∨ (b.width = 0 ∧ b' = { b.ov with width := 1 }))

theorem finish_zero (b : WB) (h : b.Zero) : b.finish = .ok [] := by
  obtain ⟨h1, h2, h3⟩ := h
  unfold WB.finish WB.flushWord
  rw [if_pos h3]
  simp only [andThen]
  have : ({ b with wordlen := 0 } : WB).flushLine = { b with wordlen := 0 } := by
    unfold WB.flushLine
    rw [if_pos (by show b.line.noContent = true; rw [h2]; rfl)]
  rw [this]
  show Except.ok (rescueMarks b.text b.line) = _
  rw [h1, h2]; rfl

theorem ovFinish_rel (b b' : WB) (ls : List TLine) (h : OvR b b') (hf : b.finish = .ok ls) : b'.finish = .ok ls := by
  obtain ⟨_, _, hz, hb⟩ := h
  rcases hb with rfl | ⟨hw, rfl⟩
  · exact finish_ov b ls hf
  · have z := hz hw
    rw [finish_zero b z] at hf
    injection hf with hf; subst hf
    exact finish_zero _ z

theorem OvR.clearWord {b b' : WB} (h : OvR b b') (hn : b.word.noContent = true) :
    OvR ({ b with word := [] } : WB) ({ b' with word := [] } : WB) := by
  obtain ⟨hi, ho, hz, hb⟩ := h
  refine ⟨⟨hi.linelen_eq, ?_, hi.line_fit, hi.text_fit, hi.tag_ok⟩, ho, fun hw => ⟨(hz hw).1, (hz hw).2.1, rfl⟩, ?_⟩
  · show b.wordlen = lw []
    rw [hi.wordlen_eq, noContent_lw _ hn]; rfl
  · rcases hb with rfl | ⟨hw, rfl⟩
    · exact Or.inl rfl
    · exact Or.inr ⟨hw, rfl⟩

theorem OvR.fields {b b' : WB} (h : OvR b b') : b'.word = b.word ∧ b'.wordlen = b.wordlen ∧ b'.linelen = b.linelen ∧ b'.text = b.text := by
  obtain ⟨_, _, _, hb⟩ := h
  rcases hb with rfl | ⟨_, rfl⟩ <;> exact ⟨rfl, rfl, rfl, rfl⟩

theorem addText_rel (b b' b1 : WB) (m : WS) (mt wt : Tag) (cs : List Ch) (h : OvR b b') (ha : b.addText m mt wt cs = .ok b1) :
    ∃ b1', b'.addText m mt wt cs = .ok b1' ∧ OvR b1 b1' := by
  obtain ⟨hi, ho, hz, hb⟩ := h
  obtain ⟨i1, sm⟩ := addText_inv m mt wt cs b b1 hi ho ha
  by_cases hw : b.width = 0
  · -- a zero-width block: the text is empty, nothing happens without the flag; with it the block becomes one column wide
    have hcs : cs = [] ∧ b1 = b := by
      unfold WB.addText WB.zeroGuard at ha
      rw [if_pos hw, if_neg (by simp [ho])] at ha
      cases cs with
      | nil => simp [andThen, WB.addTextGo] at ha; exact ⟨rfl, ha.symm⟩
      | cons c cs => simp [andThen] at ha
    obtain ⟨hcs1, hcs2⟩ := hcs
    subst hcs1
    have hcs3 := hcs2.symm
    subst hcs3
    refine ⟨({ b.ov with width := 1 } : WB), ?_, hi, ho, hz, Or.inr ⟨hw, rfl⟩⟩
    rcases hb with rfl | ⟨_, rfl⟩
    · unfold WB.addText WB.zeroGuard
      rw [if_pos (show b.ov.width = 0 from hw), if_pos (show b.ov.overflow = true from rfl)]
      rfl
    · unfold WB.addText WB.zeroGuard
      rw [if_neg (show ¬ ({ b.ov with width := 1 } : WB).width = 0 by simp)]
      rfl
  · have hb' : b' = b.ov := by
      rcases hb with rfl | ⟨hw', _⟩
      · rfl
      · exact absurd hw' hw
    subst hb'
    refine ⟨b1.ov, ?_, i1, sm.overflow.trans ho, fun h0 => absurd (sm.width.symm.trans h0) hw, Or.inl rfl⟩
    unfold WB.addText WB.zeroGuard at ha ⊢
    rw [if_neg hw] at ha
    rw [if_neg (show ¬ b.ov.width = 0 from hw)]
    simp only [andThen] at ha ⊢
    exact addTextGo_ov m mt wt cs b b1 _ ha

theorem noContent_append_frag (l : TLine) (n : List Ch) : (l ++ [Elt.frag n]).noContent = l.noContent := by
  simp [TLine.noContent, Elt.isCell]

theorem addElement_rel (b b' : WB) (n : List Ch) (h : OvR b b') : OvR (b.addElement (.frag n)) (b'.addElement (.frag n)) := by
  obtain ⟨hi, ho, hz, hb⟩ := h
  refine ⟨⟨hi.linelen_eq, by simp [WB.addElement, hi.wordlen_eq, Elt.w], hi.line_fit, hi.text_fit, hi.tag_ok⟩, ho, ?_, ?_⟩
  · intro hw
    obtain ⟨z1, z2, z3⟩ := hz hw
    refine ⟨z1, z2, ?_⟩
    show (b.word ++ [Elt.frag n]).noContent = true
    rw [noContent_append_frag]; exact z3
  · rcases hb with rfl | ⟨hw, rfl⟩
    · exact Or.inl rfl
    · exact Or.inr ⟨hw, rfl⟩

/-! ## sub-renderers -/

theorem ov_addLine_wrapping (s : SubR) (l : RLine) : (s.addLine l).wrapping = s.wrapping := by
  cases l with
  | rule b t => rfl
  | text tl => simp only [SubR.addLine]; split <;> rfl

theorem ov_addLines_wrapping (ls : List RLine) : ∀ s : SubR, (s.addLines ls).wrapping = s.wrapping := by
  induction ls with
  | nil => intro s; rfl
  | cons l ls ih => intro s; exact (ih (s.addLine l)).trans (ov_addLine_wrapping s l)

theorem flushWrapping_none (s s' : SubR) (h : s.flushWrapping = .ok s') : s'.wrapping = none := by
  unfold SubR.flushWrapping at h
  cases hw : s.wrapping with
  | none => simp only [hw] at h; injection h with h; subst h; exact hw
  | some w =>
    simp only [hw] at h
    generalize (if w.word.noContent = true then { w with word := [] } else w) = w' at h
    cases hf : w'.finish with
    | error e => simp [hf, andThen] at h
    | ok ls =>
      simp only [hf, andThen] at h; injection h with h; subst h
      exact ov_addLines_wrapping _ _

theorem ovStartBlock_none (s s' : SubR) (h : s.startBlock = .ok s') : s'.wrapping = none := by
  unfold SubR.startBlock at h
  cases h1 : s.flushWrapping with
  | error e => simp [h1, andThen] at h
  | ok s1 =>
    simp only [h1, andThen] at h
    have e1 := flushWrapping_none s s1 h1
    generalize hr : (if s1.lines.any RLine.hasContent = true then s1.addEmptyLine else Except.ok s1) = r at h
    cases r with
    | error e => simp at h
    | ok s2 =>
      simp only at h; injection h with h; subst h
      split at hr
      · unfold SubR.addEmptyLine at hr
        cases h2 : s1.flushWrapping with
        | error e => simp [h2, andThen] at hr
        | ok s3 =>
          simp only [h2, andThen] at hr; injection hr with hr; subst hr
          exact (ov_addLine_wrapping s3 _).trans (flushWrapping_none s1 s3 h2)
      · injection hr with hr; subst hr; exact e1


def WRel : Option WB → Option WB → Prop
  | none, none => True
  | some w, some w' => OvR w w'
  | _, _ => False

/-- the sub-renderer of the run with overflow allowed: everything equal except the wrapping block -/
def SR (s s' : SubR) : Prop := ∃ wr', s' = { s with wrapping := wr' } ∧ WRel s.wrapping wr'

theorem SR.refl_none (s : SubR) (h : s.wrapping = none) : SR s s := ⟨none, by cases s; simp_all, by rw [h]; trivial⟩

theorem flushWrapping_rel (s s' s1 : SubR) (h : SR s s') (hf : s.flushWrapping = .ok s1) : s'.flushWrapping = .ok s1 := by
  obtain ⟨wr', rfl, hw⟩ := h
  unfold SubR.flushWrapping at hf ⊢
  cases hsw : s.wrapping with
  | none =>
    rw [hsw] at hw
    cases wr' with
    | some _ => exact absurd hw (by simp [WRel])
    | none =>
      simp only [hsw] at hf
      injection hf with hf; subst hf
      show Except.ok ({ s with wrapping := none } : SubR) = Except.ok s
      congr 1; cases s; simp_all
  | some w =>
    rw [hsw] at hw
    cases wr' with
    | none => exact absurd hw (by simp [WRel])
    | some w' =>
      have hr : OvR w w' := hw
      simp only [hsw] at hf
      show (let frags := if w'.word.noContent = true then w'.word else []
        let w'' := if w'.word.noContent = true then { w' with word := [] } else w'
        andThen w''.finish fun ls =>
          let s1 := ({ ({ s with wrapping := some w' } : SubR) with wrapping := none } : SubR).addLines (ls.map RLine.text)
          Except.ok { s1 with pendingFrags := s1.pendingFrags ++ frags }) = _
      simp only [hr.fields.1]
      have hr' : OvR (if w.word.noContent = true then { w with word := [] } else w) (if w.word.noContent = true then { w' with word := [] } else w') := by
        split
        · rename_i hn; exact hr.clearWord hn
        · exact hr
      cases hfin : (if w.word.noContent = true then { w with word := [] } else w).finish with
      | error e => simp [hfin, andThen] at hf
      | ok ls =>
        rw [ovFinish_rel _ _ ls hr' hfin]
        simp only [hfin, andThen] at hf ⊢
        exact hf

theorem intoLines_rel (s s' : SubR) (ls : List RLine) (h : SR s s') (hf : s.intoLines = .ok ls) : s'.intoLines = .ok ls := by
  unfold SubR.intoLines at hf ⊢
  cases h1 : s.flushWrapping with
  | error e => simp [h1, andThen] at hf
  | ok s1 => rw [flushWrapping_rel s s' s1 h h1]; rw [h1] at hf; exact hf

theorem addEmptyLine_rel (s s' s1 : SubR) (h : SR s s') (hf : s.addEmptyLine = .ok s1) : s'.addEmptyLine = .ok s1 := by
  unfold SubR.addEmptyLine at hf ⊢
  cases h1 : s.flushWrapping with
  | error e => simp [h1, andThen] at hf
  | ok s0 => rw [flushWrapping_rel s s' s0 h h1]; rw [h1] at hf; exact hf

theorem startBlock_rel (s s' s1 : SubR) (h : SR s s') (hf : s.startBlock = .ok s1) : s'.startBlock = .ok s1 := by
  unfold SubR.startBlock at hf ⊢
  cases h1 : s.flushWrapping with
  | error e => simp [h1, andThen] at hf
  | ok s0 => rw [flushWrapping_rel s s' s0 h h1]; rw [h1] at hf; exact hf

theorem newLineHard_rel (s s' s1 : SubR) (h : SR s s') (hf : s.newLineHard = .ok s1) : s'.newLineHard = .ok s1 := by
  have h0 := h
  obtain ⟨wr', rfl, hw⟩ := h
  unfold SubR.newLineHard at hf ⊢
  cases hsw : s.wrapping with
  | none =>
    rw [hsw] at hw
    cases wr' with
    | some _ => exact absurd hw (by simp [WRel])
    | none => simp only [hsw] at hf; exact addEmptyLine_rel s _ s1 h0 hf
  | some w =>
    rw [hsw] at hw
    cases wr' with
    | none => exact absurd hw (by simp [WRel])
    | some w' =>
      have hr : OvR w w' := hw
      simp only [hsw] at hf
      show (if (w'.wordlen = 0 && w'.linelen = 0) = true then _ else _) = _
      rw [hr.fields.2.1, hr.fields.2.2.1]
      split at hf
      · rename_i hc; rw [if_pos hc]; exact addEmptyLine_rel s _ s1 h0 hf
      · rename_i hc; rw [if_neg hc]; exact flushWrapping_rel s _ s1 h0 hf

theorem empty_rel (s s' : SubR) (h : SR s s') : s'.empty = s.empty := by
  obtain ⟨wr', rfl, hw⟩ := h
  unfold SubR.empty
  cases hsw : s.wrapping with
  | none =>
    rw [hsw] at hw
    cases wr' with
    | some _ => exact absurd hw (by simp [WRel])
    | none => rfl
  | some w =>
    rw [hsw] at hw
    cases wr' with
    | none => exact absurd hw (by simp [WRel])
    | some w' =>
      have hr : OvR w w' := hw
      show (s.lines.isEmpty && (w'.textLen == 0)) = (s.lines.isEmpty && (w.textLen == 0))
      unfold WB.textLen
      rw [hr.fields.2.1, hr.fields.2.2.1, hr.fields.2.2.2]

theorem appendSub_rel (s s' o o' s1 : SubR) (first rest : List Ch) (h : SR s s') (ho : SR o o')
    (hf : s.appendSub o first rest = .ok s1) : s'.appendSub o' first rest = .ok s1 := by
  unfold SubR.appendSub at hf ⊢
  cases h1 : s.flushWrapping with
  | error e => simp [h1, andThen] at hf
  | ok s0 =>
    rw [flushWrapping_rel s s' s0 h h1]
    simp only [h1, andThen] at hf ⊢
    cases h2 : o.intoLines with
    | error e => simp [h2] at hf
    | ok ls => rw [intoLines_rel o o' ls ho h2]; rw [h2] at hf; exact hf

/-- the configuration with overflow allowed -/
def Cfg.ovOn (cfg : Cfg) : Cfg := { cfg with overflow := true }

theorem getWrapping_rel (s s' : SubR) (cfg : Cfg) (h : SR s s') (hov : cfg.overflow = false) :
    OvR (s.getWrapping cfg) (s'.getWrapping cfg.ovOn) := by
  obtain ⟨wr', rfl, hw⟩ := h
  unfold SubR.getWrapping
  cases hsw : s.wrapping with
  | none =>
    rw [hsw] at hw
    cases wr' with
    | some _ => exact absurd hw (by simp [WRel])
    | none =>
      simp only
      refine ⟨new_inv _ _ _, hov, fun _ => ⟨rfl, rfl, rfl⟩, Or.inl ?_⟩
      simp only [Cfg.ovOn, WB.ov]
  | some w =>
    rw [hsw] at hw
    cases wr' with
    | none => exact absurd hw (by simp [WRel])
    | some w' => exact hw

theorem addInlineText_rel (s s' s1 : SubR) (cfg : Cfg) (x : List Ch) (f : Ann → Ann) (h : SR s s') (hov : cfg.overflow = false)
    (hf : s.addInlineText cfg x f = .ok s1) : ∃ s1', s'.addInlineText cfg.ovOn x f = .ok s1' ∧ SR s1 s1' := by
  have hfld : s'.wsMode = s.wsMode ∧ s'.atBlockEnd = s.atBlockEnd := by
    obtain ⟨wr', rfl, _⟩ := h; exact ⟨rfl, rfl⟩
  unfold SubR.addInlineText at hf ⊢
  rw [hfld.1, hfld.2]
  by_cases hc : (!s.wsMode.preserve && s.atBlockEnd && x.all chIsWs) = true
  · rw [if_pos hc] at hf ⊢
    injection hf with hf; subst hf; exact ⟨s', rfl, h⟩
  · rw [if_neg hc] at hf ⊢
    -- after the optional start_block both runs are related again
    have hsb : ∀ s0, (if s.atBlockEnd = true then s.startBlock else Except.ok s) = .ok s0 →
        ∃ s0', (if s.atBlockEnd = true then s'.startBlock else Except.ok s') = .ok s0' ∧ SR s0 s0' := by
      intro s0 e
      by_cases hab : s.atBlockEnd = true
      · rw [if_pos hab] at e ⊢
        exact ⟨s0, startBlock_rel s s' s0 h e, SR.refl_none s0 (ovStartBlock_none s s0 e)⟩
      · rw [if_neg hab] at e ⊢
        injection e with e; subst e; exact ⟨s', rfl, h⟩
    cases e0 : (if s.atBlockEnd = true then s.startBlock else Except.ok s) with
    | error e => simp [e0, andThen] at hf
    | ok s0 =>
      obtain ⟨s0', e0', hr0⟩ := hsb s0 e0
      rw [e0']
      simp only [e0, andThen] at hf ⊢
      have hr := getWrapping_rel s0 s0' cfg hr0 hov
      have hfl : s0'.wsMode = s0.wsMode ∧ s0'.preDepth = s0.preDepth ∧ s0'.annStack = s0.annStack ∧ s0'.filterDepth = s0.filterDepth := by
        obtain ⟨wr', rfl, _⟩ := hr0; exact ⟨rfl, rfl, rfl, rfl⟩
      rw [hfl.1, hfl.2.1, hfl.2.2.1, hfl.2.2.2]
      cases ha : (s0.getWrapping cfg).addText s0.wsMode (if s0.preDepth > 0 then s0.annStack ++ [f (Ann.pre false)] else s0.annStack)
        (if s0.preDepth > 0 then s0.annStack ++ [f (Ann.pre true)] else s0.annStack) (iterN strikeFilter s0.filterDepth x) with
      | error e => simp [ha] at hf
      | ok w1 =>
        obtain ⟨w1', ha', hr1⟩ := addText_rel _ _ w1 _ _ _ _ hr ha
        rw [ha']
        simp only [ha] at hf ⊢
        injection hf with hf; subst hf
        obtain ⟨wr', rfl, _⟩ := hr0
        exact ⟨_, rfl, some w1', rfl, hr1⟩

theorem recordFrag_rel (s s' : SubR) (cfg : Cfg) (n : List Ch) (h : SR s s') (hov : cfg.overflow = false) :
    SR (s.recordFrag cfg n) (s'.recordFrag cfg.ovOn n) := by
  have hr := addElement_rel _ _ n (getWrapping_rel s s' cfg h hov)
  obtain ⟨wr', rfl, _⟩ := h
  exact ⟨some _, rfl, hr⟩

/-! ## table rows: lists of related cell renderers -/

inductive SRL : List SubR → List SubR → Prop
  | nil : SRL [] []
  | cons {a a' : SubR} {l l' : List SubR} : SR a a' → SRL l l' → SRL (a :: l) (a' :: l')

theorem SR.width {s s' : SubR} (h : SR s s') : s'.width = s.width := by obtain ⟨wr', rfl, _⟩ := h; rfl

theorem colSets_rel (ann : Tag) : ∀ (cols cols' : List SubR) (sets : List (Nat × List RLine)), SRL cols cols' →
    colSets ann cols = .ok sets → colSets ann cols' = .ok sets := by
  intro cols cols' sets h
  induction h generalizing sets with
  | nil => intro e; exact e
  | cons ha hl ih =>
    rename_i a a' l l'
    intro e
    simp only [colSets] at e ⊢
    cases h1 : a.intoLines with
    | error x => simp [h1, andThen] at e
    | ok ls =>
      rw [intoLines_rel a a' ls ha h1]
      simp only [h1, andThen] at e ⊢
      cases h2 : colSets ann l with
      | error x => simp [h2] at e
      | ok r =>
        rw [ih r h2, ha.width]
        rw [h2] at e; exact e

theorem any_nonempty_rel : ∀ (cols cols' : List SubR), SRL cols cols' → cols'.any (fun c => !c.empty) = cols.any (fun c => !c.empty) := by
  intro cols cols' h
  induction h with
  | nil => rfl
  | cons ha _ ih => simp only [List.any_cons, empty_rel _ _ ha, ih]

theorem addLines_none (ls : List RLine) (s : SubR) (h : s.wrapping = none) : (s.addLines ls).wrapping = none :=
  (ov_addLines_wrapping ls s).trans h

theorem ovAppendSub_none (s o s1 : SubR) (first rest : List Ch) (h : s.appendSub o first rest = .ok s1) : s1.wrapping = none := by
  unfold SubR.appendSub at h
  cases h1 : s.flushWrapping with
  | error e => simp [h1, andThen] at h
  | ok s0 =>
    simp only [h1, andThen] at h
    cases h2 : o.intoLines with
    | error e => simp [h2] at h
    | ok ls =>
      simp only [h2] at h; injection h with h; subst h
      exact addLines_none _ _ (flushWrapping_none s s0 h1)

theorem appendColumns_rel (s s' s1 : SubR) (cfg : Cfg) (cols cols' : List SubR) (h : SR s s') (hc : SRL cols cols')
    (hf : s.appendColumns cfg cols = .ok s1) : s'.appendColumns cfg.ovOn cols' = .ok s1 := by
  rw [appendColumns_sim (c1 := cfg.ovOn) (c2 := cfg) rfl]
  unfold SubR.appendColumns at hf ⊢
  cases h1 : s.flushWrapping with
  | error e => simp [h1, andThen_error_eq] at hf
  | ok s0 =>
    rw [flushWrapping_rel s s' s0 h h1]
    simp only [h1, andThen_ok_eq] at hf ⊢
    cases h2 : colSets s0.annStack cols with
    | error e => simp [h2, andThen_error_eq] at hf
    | ok sets =>
      rw [colSets_rel _ cols cols' sets hc h2]
      rw [h2] at hf; exact hf

theorem vertCells_cons (cfg : Cfg) (first : Bool) (s c : SubR) (cs : List SubR) : vertCells cfg first s (c :: cs) =
    andThen (if (!first && cfg.drawBorders) = true then
        andThen s.flushWrapping fun x => Except.ok (x.addLine (.rule (List.replicate s.width Seg.vert) x.annStack))
      else Except.ok s) fun s' =>
    andThen (s'.appendSub c [] []) fun s'' => vertCells cfg false s'' cs := rfl

theorem vertCells_rel (cfg : Cfg) : ∀ (cols cols' : List SubR), SRL cols cols' → ∀ (first : Bool) (s s' s1 : SubR), SR s s' →
    vertCells cfg first s cols = .ok s1 → ∃ s1', vertCells cfg first s' cols' = .ok s1' ∧ SR s1 s1' := by
  intro cols cols' hc
  induction hc with
  | nil => intro first s s' s1 h e; simp only [vertCells] at e ⊢; injection e with e; subst e; exact ⟨s', rfl, h⟩
  | cons ha hl ih =>
    rename_i a a' l l'
    intro first s s' s1 h e
    rw [vertCells_cons] at e ⊢
    -- the separator rule (after a flush) or nothing
    have hstep : ∀ s2, (if (!first && cfg.drawBorders) = true then
          andThen s.flushWrapping fun x => Except.ok (x.addLine (.rule (List.replicate s.width Seg.vert) x.annStack)) else Except.ok s) = .ok s2 →
        ∃ s2', (if (!first && cfg.drawBorders) = true then
          andThen s'.flushWrapping fun x => Except.ok (x.addLine (.rule (List.replicate s'.width Seg.vert) x.annStack)) else Except.ok s') = .ok s2' ∧ SR s2 s2' := by
      intro s2 e2
      by_cases hb : (!first && cfg.drawBorders) = true
      · rw [if_pos hb] at e2 ⊢
        cases h1 : s.flushWrapping with
        | error x => simp [h1, andThen_error_eq] at e2
        | ok s0 =>
          rw [flushWrapping_rel s s' s0 h h1, h.width]
          simp only [h1, andThen_ok_eq] at e2 ⊢
          injection e2 with e2; subst e2
          exact ⟨_, rfl, SR.refl_none _ ((ov_addLine_wrapping s0 _).trans (flushWrapping_none s s0 h1))⟩
      · rw [if_neg hb] at e2 ⊢
        injection e2 with e2; subst e2; exact ⟨s', rfl, h⟩
    cases e2 : (if (!first && cfg.drawBorders) = true then
          andThen s.flushWrapping fun x => Except.ok (x.addLine (.rule (List.replicate s.width Seg.vert) x.annStack)) else Except.ok s) with
    | error x => rw [e2] at e; simp [andThen_error_eq] at e
    | ok s2 =>
      obtain ⟨s2', e2', hr2⟩ := hstep s2 e2
      rw [e2']
      rw [e2] at e
      simp only [andThen_ok_eq] at e ⊢
      cases e3 : s2.appendSub a [] [] with
      | error x => simp [e3, andThen_error_eq] at e
      | ok s3 =>
        rw [appendSub_rel s2 s2' a a' s3 [] [] hr2 ha e3]
        simp only [e3, andThen_ok_eq] at e ⊢
        exact ih false s3 s3 s1 (SR.refl_none s3 (ovAppendSub_none s2 a s3 [] [] e3)) e

theorem ovVertCells_none (cfg : Cfg) : ∀ (cols : List SubR), cols ≠ [] → ∀ (first : Bool) (s s1 : SubR),
    vertCells cfg first s cols = .ok s1 → s1.wrapping = none := by
  intro cols
  induction cols with
  | nil => intro h; exact absurd rfl h
  | cons c cs ih =>
    intro _ first s s1 e
    rw [vertCells_cons] at e
    cases e2 : (if (!first && cfg.drawBorders) = true then
          andThen s.flushWrapping fun x => Except.ok (x.addLine (.rule (List.replicate s.width Seg.vert) x.annStack)) else Except.ok s) with
    | error x => rw [e2] at e; simp [andThen_error_eq] at e
    | ok s2 =>
      rw [e2] at e
      simp only [andThen_ok_eq] at e
      cases e3 : s2.appendSub c [] [] with
      | error x => simp [e3, andThen_error_eq] at e
      | ok s3 =>
        simp only [e3, andThen_ok_eq] at e
        cases cs with
        | nil => simp only [vertCells] at e; injection e with e; subst e; exact ovAppendSub_none s2 c s3 [] [] e3
        | cons c2 cs2 => exact ih (by simp) false s3 s1 e

theorem appendVertRow_rel (s s' s1 : SubR) (cfg : Cfg) (cols cols' : List SubR) (h : SR s s') (hc : SRL cols cols')
    (hf : s.appendVertRow cfg cols = .ok s1) : s'.appendVertRow cfg.ovOn cols' = .ok s1 := by
  rw [appendVertRow_sim (c1 := cfg.ovOn) (c2 := cfg) rfl]
  unfold SubR.appendVertRow at hf ⊢
  cases h1 : s.flushWrapping with
  | error e => simp [h1, andThen_error_eq] at hf
  | ok s0 =>
    rw [flushWrapping_rel s s' s0 h h1]
    simp only [h1, andThen_ok_eq] at hf ⊢
    cases h2 : vertCells cfg true s0 cols with
    | error e => simp [h2, andThen_error_eq] at hf
    | ok s2 =>
      obtain ⟨s2', e2', hr2⟩ := vertCells_rel cfg cols cols' hc true s0 s0 s2 (SR.refl_none s0 (flushWrapping_none s s0 h1)) h2
      rw [e2']
      simp only [h2, andThen_ok_eq] at hf ⊢
      split at hf
      · rename_i hb; rw [if_pos hb]
        cases h3 : s2.flushWrapping with
        | error e => simp [h3, andThen_error_eq] at hf
        | ok s3 => rw [flushWrapping_rel s2 s2' s3 hr2 h3]; rw [h3] at hf; exact hf
      · rename_i hb; rw [if_neg hb]
        -- without borders the last cell's state is returned as it is: appended sub-renderers leave no open block
        injection hf with hf; subst hf
        have : s2' = s2 := by
          obtain ⟨wr', rfl, hw⟩ := hr2
          cases cols with
          | nil =>
            cases hc
            simp only [vertCells] at h2 e2'
            injection h2 with h2; injection e2' with e2'
            rw [← e2', h2]
          | cons c cs =>
            have hn : s2.wrapping = none := ovVertCells_none cfg (c :: cs) (by simp) true s0 s2 h2
            rw [hn] at hw
            cases wr' with
            | some _ => exact absurd hw (by simp [WRel])
            | none => cases s2; simp_all
        rw [this]

end H2T
