import H2T.Lemmas.FitsBlock
import H2T.Lemmas.Shrink

/-! C02, table layer: `appendColumns` (side-by-side rows with border collapsing), `appendVertRow` (stacked rows),
    column allocation and the row/cell recursion keep "every line of the current sub-renderer fits its width". -/

namespace H2T

theorem andThen_ok_eq {α β : Type} (a : α) (f : α → Except Err β) : andThen (Except.ok a) f = f a := rfl
theorem andThen_error_eq {α β : Type} (e : Err) (f : α → Except Err β) : andThen (Except.error e) f = .error e := rfl

/-! ## border lengths -/

theorem stretch_length (b : Border) (w : Nat) : (b.stretch w).length = max b.length w := by
  simp [Border.stretch]; omega

theorem joinAbove_le (b : Border) (x N : Nat) (h : b.length ≤ N) (hx : x < N) : (b.joinAbove x).length ≤ N := by
  simp [Border.joinAbove, stretch_length]; omega

theorem joinBelow_le (b : Border) (x N : Nat) (h : b.length ≤ N) (hx : x < N) : (b.joinBelow x).length ≤ N := by
  simp [Border.joinBelow, stretch_length]; omega

theorem foldl_joinAbove_le (js : List Nat) (N : Nat) : ∀ (b : Border), b.length ≤ N → (∀ x ∈ js, x < N) →
    (js.foldl Border.joinAbove b).length ≤ N := by
  induction js with
  | nil => intro b h _; exact h
  | cons j js ih =>
    intro b h hj
    exact ih _ (joinAbove_le b j N h (hj j (by simp))) (fun x hx => hj x (by simp [hx]))

theorem foldl_joinBelow_le (js : List Nat) (N : Nat) : ∀ (b : Border), b.length ≤ N → (∀ x ∈ js, x < N) →
    (js.foldl Border.joinBelow b).length ≤ N := by
  induction js with
  | nil => intro b h _; exact h
  | cons j js ih =>
    intro b h hj
    exact ih _ (joinBelow_le b j N h (hj j (by simp))) (fun x hx => hj x (by simp [hx]))

theorem mergeFold_le (f : Border → Nat → Border) (hf : ∀ b x N, b.length ≤ N → x < N → (f b x).length ≤ N)
    (pos N : Nat) (l : List (Seg × Nat)) : ∀ (b : Border), b.length ≤ N → (∀ p ∈ l, p.2 + pos < N) →
    (l.foldl (fun acc (p : Seg × Nat) => if p.1.isJoin then f acc (p.2 + pos) else acc) b).length ≤ N := by
  induction l with
  | nil => intro b h _; exact h
  | cons p l ih =>
    intro b h hp
    simp only [List.foldl_cons]
    apply ih
    · split
      · exact hf b _ N h (hp p (by simp))
      · exact h
    · exact fun q hq => hp q (by simp [hq])

theorem mergeFromBelow_le (b other : Border) (pos N : Nat) (h : b.length ≤ N) (ho : other.length + pos ≤ N) :
    (b.mergeFromBelow other pos).length ≤ N := by
  unfold Border.mergeFromBelow
  have := mergeFold_le Border.joinBelow joinBelow_le pos N other.zipIdx b h (by
    intro p hp
    obtain ⟨sg, i⟩ := p
    have := List.mem_zipIdx hp
    simp at this ⊢; omega)
  exact this

theorem mergeFromAbove_le (b other : Border) (pos N : Nat) (h : b.length ≤ N) (ho : other.length + pos ≤ N) :
    (b.mergeFromAbove other pos).length ≤ N := by
  unfold Border.mergeFromAbove
  have := mergeFold_le Border.joinAbove joinAbove_le pos N other.zipIdx b h (by
    intro p hp
    obtain ⟨sg, i⟩ := p
    have := List.mem_zipIdx hp
    simp at this ⊢; omega)
  exact this

/-! ## padded line sets -/

/-- a line set: every line is at most as wide as its cell -/
def SetOk (st : Nat × List RLine) : Prop := ∀ l ∈ st.2, rlw l ≤ st.1

theorem padLine_width (tag : Tag) (w : Nat) (l : RLine) (h : rlw l ≤ w) : rlw (padLine tag w l) ≤ w := by
  cases l with
  | text tl =>
    simp only [rlw] at h
    simp only [padLine, rlw, lw_append, lw_replicate_spc]; omega
  | rule b t =>
    simp only [rlw] at h
    simp only [padLine, rlw, stretch_length]; omega

theorem intoLines_fit (c : SubR) (ls : List RLine) (hc : c.Fits) (h : c.intoLines = .ok ls) : ∀ l ∈ ls, rlw l ≤ c.width := by
  unfold SubR.intoLines at h
  cases h1 : c.flushWrapping with
  | error e => simp [h1, andThen] at h
  | ok c1 =>
    simp only [h1, andThen] at h; injection h with h; subst h
    obtain ⟨⟨f1, w1⟩, _⟩ := flushWrapping_step c c1 hc h1
    intro l hl
    have := f1.lines l hl
    omega

/-- Σ (w + 1) over the cells -/
def spanOf : List (Nat × List RLine) → Nat
  | [] => 0
  | st :: r => st.1 + 1 + spanOf r

theorem colSets_ok (ann : Tag) : ∀ (cols : List SubR) (sets : List (Nat × List RLine)), (∀ c ∈ cols, c.Fits) →
    colSets ann cols = .ok sets → (∀ st ∈ sets, SetOk st) ∧ spanOf sets = (cols.map fun c => c.width + 1).sum := by
  intro cols
  induction cols with
  | nil => intro sets _ h; simp [colSets] at h; subst h; exact ⟨by simp, rfl⟩
  | cons c cs ih =>
    intro sets hf h
    simp only [colSets] at h
    cases h1 : c.intoLines with
    | error e => simp [h1, andThen] at h
    | ok ls =>
      simp only [h1, andThen] at h
      cases h2 : colSets ann cs with
      | error e => simp [h2] at h
      | ok r =>
        simp only [h2] at h; injection h with h; subst h
        obtain ⟨a, b⟩ := ih r (fun x hx => hf x (by simp [hx])) h2
        refine ⟨?_, by simp [spanOf, b]⟩
        intro st hst
        simp only [List.mem_cons] at hst
        rcases hst with rfl | hst
        · intro l hl
          simp only [List.mem_map] at hl
          obtain ⟨l0, hl0, rfl⟩ := hl
          exact padLine_width _ _ _ (intoLines_fit c ls (hf c (by simp)) h1 l0 hl0)
        · exact a st hst

theorem spanOf_eq (sets : List (Nat × List RLine)) : spanOf sets = (sets.map (·.1)).sum + sets.length := by
  induction sets with
  | nil => rfl
  | cons st r ih => simp [spanOf, ih]; omega

theorem barPositions_lt : ∀ (sets : List (Nat × List RLine)) (pos : Nat), ∀ x ∈ barPositions pos sets, x + 1 < pos + spanOf sets := by
  intro sets
  induction sets with
  | nil => intro pos x hx; simp [barPositions] at hx
  | cons st r ih =>
    intro pos x hx
    cases r with
    | nil => simp [barPositions] at hx
    | cons st2 r2 =>
      simp only [barPositions, List.mem_cons] at hx
      rcases hx with rfl | hx
      · simp [spanOf]; omega
      · have := ih (pos + st.1 + 1) x hx
        simp only [spanOf] at this ⊢; omega

/-! ## collapsing -/

theorem collapseTop_ok : ∀ (sets : List (Nat × List RLine)) (prev : Option Border) (pos N : Nat)
    (p2 : Option Border) (out : List (Nat × List RLine)),
    (∀ st ∈ sets, SetOk st) → pos + spanOf sets ≤ N + 1 → (∀ pb, prev = some pb → pb.length ≤ N) →
    collapseTop prev pos sets = .ok (p2, out) →
    (∀ st ∈ out, SetOk st) ∧ spanOf out = spanOf sets ∧ (∀ pb, p2 = some pb → pb.length ≤ N) ∧ (p2.isSome = prev.isSome) := by
  intro sets
  induction sets with
  | nil =>
    intro prev pos N p2 out _ _ hp h
    simp [collapseTop] at h
    obtain ⟨rfl, rfl⟩ := h
    exact ⟨by simp, rfl, hp, rfl⟩
  | cons st r ih =>
    intro prev pos N p2 out hs hN hp h
    have hst := hs st (by simp)
    have hr : ∀ x ∈ r, SetOk x := fun x hx => hs x (by simp [hx])
    simp only [spanOf] at hN
    unfold collapseTop at h
    split at h
    · rename_i b t restLines heq
      cases prev with
      | none => simp at h
      | some pb =>
        simp only at h
        cases h1 : collapseTop (some (pb.mergeFromBelow b pos)) (pos + st.1 + 1) r with
        | error e => simp [h1, andThen] at h
        | ok v =>
          obtain ⟨p', out'⟩ := v
          simp only [h1, andThen] at h
          injection h with h
          simp only [Prod.mk.injEq] at h
          obtain ⟨rfl, rfl⟩ := h
          have hb : b.length ≤ st.1 := by
            have := hst (.rule b t) (by rw [heq]; simp)
            simpa [rlw] using this
          obtain ⟨a1, a2, a3, a4⟩ := ih (some (pb.mergeFromBelow b pos)) (pos + st.1 + 1) N p' out' hr (by omega)
            (by intro pb' hpb'; injection hpb' with hpb'; subst hpb'
                exact mergeFromBelow_le pb b pos N (hp pb rfl) (by omega)) h1
          refine ⟨?_, by simp [spanOf, a2], a3, by simpa using a4⟩
          intro x hx
          simp only [List.mem_cons] at hx
          rcases hx with rfl | hx
          · intro l hl; exact hst l (by rw [heq]; simp [hl])
          · exact a1 x hx
    · cases h1 : collapseTop prev (pos + st.1 + 1) r with
      | error e => simp [h1, andThen] at h
      | ok v =>
        obtain ⟨p', out'⟩ := v
        simp only [h1, andThen] at h
        injection h with h
        simp only [Prod.mk.injEq] at h
        obtain ⟨rfl, rfl⟩ := h
        obtain ⟨a1, a2, a3, a4⟩ := ih prev (pos + st.1 + 1) N p' out' hr (by omega) hp h1
        refine ⟨?_, by simp [spanOf, a2], a3, a4⟩
        intro x hx
        simp only [List.mem_cons] at hx
        rcases hx with rfl | hx
        · exact hst
        · exact a1 x hx

/-- a pad is no wider than its cell -/
def PadOk (p : (Nat × List RLine) × Option (List Ch)) : Prop := ∀ v, p.2 = some v → v.length ≤ p.1.1 ∧ dispW v = v.length

theorem vertAbove_len (b : Border) : b.vertAbove.length = b.length ∧ dispW b.vertAbove = b.vertAbove.length := by
  constructor
  · simp [Border.vertAbove]
  · induction b with
    | nil => rfl
    | cons sg b ih =>
      simp only [Border.vertAbove, List.map_cons, dispW, List.sum_cons, List.length_cons, List.length_map] at ih ⊢
      rw [ih]; cases sg <;> simp [mkCh, spaceCh] <;> omega

theorem dropLast_subset {α : Type} (l : List α) : ∀ x ∈ l.dropLast, x ∈ l := by
  intro x hx
  exact List.dropLast_subset l hx

theorem collapseBottom_ok : ∀ (sets : List (Nat × List RLine)) (nb : Border) (pos N : Nat),
    (∀ st ∈ sets, SetOk st) → pos + spanOf sets ≤ N + 1 → nb.length ≤ N →
    let r := collapseBottom nb pos sets
    r.1.length ≤ N ∧ (∀ p ∈ r.2.1.zip r.2.2, SetOk p.1 ∧ PadOk p) ∧ spanOf r.2.1 = spanOf sets ∧ r.2.1.length = r.2.2.length := by
  intro sets
  induction sets with
  | nil => intro nb pos N _ _ h; simp [collapseBottom]; exact h
  | cons st r ih =>
    intro nb pos N hs hN hnb
    have hst := hs st (by simp)
    have hr : ∀ x ∈ r, SetOk x := fun x hx => hs x (by simp [hx])
    simp only [spanOf] at hN
    unfold collapseBottom
    split
    · rename_i b t heq
      have hb : b.length ≤ st.1 := by
        have := hst (.rule b t) (List.mem_of_getLast? heq)
        simpa [rlw] using this
      have := ih (nb.mergeFromAbove b pos) (pos + st.1 + 1) N hr (by omega) (mergeFromAbove_le nb b pos N hnb (by omega))
      obtain ⟨a1, a2, a3, a4⟩ := this
      refine ⟨a1, ?_, by simp [spanOf, a3], by simp [a4]⟩
      intro p hp
      simp only [List.zip_cons_cons, List.mem_cons] at hp
      rcases hp with rfl | hp
      · refine ⟨fun l hl => hst l (List.dropLast_subset _ hl), ?_⟩
        intro v hv
        simp only [Option.some.injEq] at hv
        subst hv
        have := vertAbove_len b
        exact ⟨by simp only; omega, this.2⟩
      · exact a2 p hp
    · have := ih nb (pos + st.1 + 1) N hr (by omega) hnb
      obtain ⟨a1, a2, a3, a4⟩ := this
      refine ⟨a1, ?_, by simp [spanOf, a3], by simp [a4]⟩
      intro p hp
      simp only [List.zip_cons_cons, List.mem_cons] at hp
      rcases hp with rfl | hp
      · exact ⟨hst, fun v hv => by simp at hv⟩
      · exact a2 p hp

/-! ## the output lines of a row -/

theorem colLineBody_width (ann : Tag) (i : Nat) (st : Nat × List RLine) (pad : Option (List Ch))
    (hs : SetOk st) (hp : PadOk (st, pad)) : lw (colLineBody ann i st pad) ≤ st.1 := by
  unfold colLineBody
  split
  · rename_i tl heq
    have := hs (.text tl) (List.mem_of_getElem? heq)
    simpa [rlw] using this
  · rename_i b t heq
    have := hs (.rule b t) (List.mem_of_getElem? heq)
    simp only [rlw] at this
    rw [dispW_cells, dispW_borderChars]; exact this
  · rw [dispW_cells]
    cases pad with
    | none => simp [dispW, spaceCh]
    | some v =>
      obtain ⟨a, b⟩ := hp v rfl
      simp only at a
      simp only [Option.getD_some]; omega

def spanOfP : List ((Nat × List RLine) × Option (List Ch)) → Nat
  | [] => 0
  | p :: r => p.1.1 + 1 + spanOfP r

theorem spanOfP_zip : ∀ (a : List (Nat × List RLine)) (b : List (Option (List Ch))), a.length = b.length →
    spanOfP (a.zip b) = spanOf a := by
  intro a
  induction a with
  | nil => intro b _; rfl
  | cons x a ih =>
    intro b hb
    cases b with
    | nil => simp at hb
    | cons y b => simp [spanOfP, spanOf, ih b (by simpa using hb)]

theorem colLine_width (ann : Tag) (sep : Ch) (hsep : sep.w = 1) (i : Nat) : ∀ (l : List ((Nat × List RLine) × Option (List Ch))),
    (∀ p ∈ l, SetOk p.1 ∧ PadOk p) → lw (colLine ann sep i l) + 1 ≤ spanOfP l + (if l.isEmpty then 1 else 0) := by
  intro l
  induction l with
  | nil => intro _; simp [colLine, spanOfP, lw]
  | cons p r ih =>
    intro h
    obtain ⟨st, pad⟩ := p
    have hb := colLineBody_width ann i st pad (h (st, pad) (by simp)).1 (h (st, pad) (by simp)).2
    cases r with
    | nil => simp [colLine, spanOfP]; omega
    | cons q r2 =>
      have := ih (fun x hx => h x (by simp [hx]))
      simp only [colLine, lw_append, spanOfP, List.isEmpty_cons] at this ⊢
      simp [lw, Elt.w, hsep] at this ⊢
      simp only [lw] at hb
      omega

/-! ## `appendColumns` -/

theorem getLast?_mem {α : Type} (l : List α) (a : α) (h : l.getLast? = some a) : a ∈ l := List.mem_of_getLast? h

theorem joinBars_ok (s : SubR) (sets : List (Nat × List RLine)) (tot : Nat) (h : s.Fits)
    (htot : tot + 1 = spanOf sets) (hN : spanOf sets ≤ s.width + 1) :
    (∀ pb, (s.joinBars sets tot).1 = some pb → pb.length ≤ s.width) ∧ (s.joinBars sets tot).2.length ≤ s.width ∧
    ((s.joinBars sets tot).1.isSome → ∃ b t, s.lines.getLast? = some (.rule b t)) := by
  have hbars : ∀ x ∈ barPositions 0 sets, x < s.width := by
    intro x hx
    have := barPositions_lt sets 0 x hx
    omega
  unfold SubR.joinBars
  split
  · rename_i pb t heq
    refine ⟨?_, ?_, fun _ => ⟨pb, t, heq⟩⟩
    · intro pb' hpb'
      simp only [Option.some.injEq] at hpb'
      subst hpb'
      have hl := h.lines _ (getLast?_mem _ _ heq)
      exact foldl_joinBelow_le _ _ _ (by simpa [rlw] using hl) hbars
    · exact foldl_joinAbove_le _ _ _ (by simp; omega) hbars
  · refine ⟨by intro pb hpb; simp at hpb, by simp; omega, by simp⟩

theorem setLast_mem {α : Type} (l : List α) (a x : α) (h : x ∈ setLast l a) : x ∈ l ∨ x = a := by
  simp only [setLast, List.mem_append, List.mem_singleton] at h
  rcases h with h | h
  · exact Or.inl (List.dropLast_subset _ h)
  · exact Or.inr h

theorem setLastRule_step (s : SubR) (prev : Option Border) (h : s.Fits) (hp : ∀ pb, prev = some pb → pb.length ≤ s.width) :
    Step s (s.setLastRule prev) ∧ (s.setLastRule prev).wrapping = s.wrapping := by
  unfold SubR.setLastRule
  split
  · rename_i pb
    split
    · refine ⟨⟨⟨?_, h.frags, h.wrap⟩, rfl⟩, rfl⟩
      intro x hx
      rcases setLast_mem _ _ _ hx with hx | hx
      · exact h.lines x hx
      · subst hx; simpa [rlw] using hp pb rfl
    · exact ⟨⟨h, rfl⟩, rfl⟩
  · exact ⟨⟨h, rfl⟩, rfl⟩

theorem emitColumns_step (s : SubR) (cfg : Cfg) (ann : Tag) (sets3 : List (Nat × List RLine)) (pads : List (Option (List Ch)))
    (next2 : Border) (h : s.Fits) (hl : sets3.length = pads.length) (hne : sets3 ≠ [])
    (hs : ∀ p ∈ sets3.zip pads, SetOk p.1 ∧ PadOk p) (hN : spanOf sets3 ≤ s.width + 1) (hb : next2.length ≤ s.width) :
    Step s (s.emitColumns cfg ann sets3 pads next2) := by
  unfold SubR.emitColumns
  simp only []
  have hsep : (if cfg.drawBorders = true then mkCh 0x2502 else spaceCh).w = 1 := by split <;> rfl
  generalize (if cfg.drawBorders = true then mkCh 0x2502 else spaceCh) = sep at hsep ⊢
  have hlines : ∀ l ∈ (List.range ((sets3.map (·.2.length)).foldl max 0)).map (fun i => RLine.text (colLine ann
      sep i (sets3.zip pads))), rlw l ≤ s.width := by
    intro l hl'
    simp only [List.mem_map] at hl'
    obtain ⟨i, _, rfl⟩ := hl'
    have := colLine_width ann _ hsep i (sets3.zip pads) hs
    rw [spanOfP_zip _ _ hl] at this
    have hz : (sets3.zip pads).isEmpty = false := by
      cases sets3 with
      | nil => exact absurd rfl hne
      | cons a r => cases pads with
        | nil => simp at hl
        | cons b r2 => rfl
    simp only [hz] at this
    simp only [rlw]; simp at this; omega
  obtain ⟨⟨f1, w1⟩, _⟩ := addLines_step _ s h hlines
  split
  · obtain ⟨⟨f2, w2⟩, _⟩ := addLine_step _ (.rule next2 ann) f1 (by simp only [rlw]; omega)
    exact ⟨f2, w2.trans w1⟩
  · exact ⟨f1, w1⟩

theorem appendColumns_step (s s' : SubR) (cfg : Cfg) (cols : List SubR) (h : s.Fits) (hc : ∀ c ∈ cols, c.Fits)
    (hw : (cols.map fun c => c.width + 1).sum ≤ s.width + 1) (he : s.appendColumns cfg cols = .ok s') : Step s s' := by
  unfold SubR.appendColumns at he
  cases h1 : s.flushWrapping with
  | error e => simp [h1, andThen] at he
  | ok s0 =>
    simp only [h1, andThen] at he
    obtain ⟨⟨f0, w0⟩, _⟩ := flushWrapping_step s s0 h h1
    cases h2 : colSets s0.annStack cols with
    | error e => simp [h2] at he
    | ok sets =>
      simp only [h2] at he
      obtain ⟨hso, hspan⟩ := colSets_ok _ cols sets hc h2
      split at he
      · simp at he
      · rename_i hne
        have hne' : sets ≠ [] := by intro hh; simp [hh] at hne
        have hN : spanOf sets ≤ s0.width + 1 := by rw [hspan, w0]; exact hw
        have htot : (sets.map (·.1)).sum + (sets.length - 1) + 1 = spanOf sets := by
          rw [spanOf_eq]
          have : 0 < sets.length := List.length_pos_iff.mpr hne'
          omega
        obtain ⟨j1, j2, _⟩ := joinBars_ok s0 sets _ f0 htot hN
        generalize s0.joinBars sets ((sets.map (·.1)).sum + (sets.length - 1)) = pn at he j1 j2
        cases h3 : collapseTop pn.1 0 sets with
        | error e => simp [h3] at he
        | ok v =>
          obtain ⟨prev2, sets2⟩ := v
          simp only [h3] at he
          injection he with he; subst he
          obtain ⟨t1, t2, t3, _⟩ := collapseTop_ok sets pn.1 0 s0.width prev2 sets2 hso (by omega) j1 h3
          have hb := collapseBottom_ok sets2 pn.2 0 s0.width t1 (by omega) j2
          simp only at hb
          obtain ⟨b1, b2, b3, b4⟩ := hb
          obtain ⟨⟨f1, w1⟩, _⟩ := setLastRule_step s0 prev2 f0 t3
          have hne3 : (collapseBottom pn.2 0 sets2).2.1 ≠ [] := by
            intro hh
            have : spanOf (collapseBottom pn.2 0 sets2).2.1 = 0 := by rw [hh]; rfl
            rw [b3, t2] at this
            cases sets with
            | nil => exact hne' rfl
            | cons a r => simp [spanOf] at this
          have st := emitColumns_step (s0.setLastRule prev2) cfg s0.annStack _ _ (collapseBottom pn.2 0 sets2).1 f1 b4 hne3 b2
            (by rw [b3, t2, w1]; exact hN) (by rw [w1]; exact b1)
          exact ⟨st.1, (st.2.trans w1).trans w0⟩

/-! ## `appendVertRow` -/

theorem vertCells_step (cfg : Cfg) : ∀ (cols : List SubR) (first : Bool) (s s' : SubR), s.Fits → (∀ c ∈ cols, c.Fits ∧ c.width ≤ s.width) →
    vertCells cfg first s cols = .ok s' → Step s s' := by
  intro cols
  induction cols with
  | nil => intro first s s' h _ he; simp [vertCells] at he; subst he; exact ⟨h, rfl⟩
  | cons c cs ih =>
    intro first s s' h hc he
    simp only [vertCells] at he
    generalize h1 : (if (!first && cfg.drawBorders) = true then
        andThen s.flushWrapping fun s' => Except.ok (s'.addLine (.rule (List.replicate s.width Seg.vert) s'.annStack))
      else Except.ok s) = r1 at he
    cases r1 with
    | error e => simp [andThen] at he
    | ok s1 =>
      have st1 : Step s s1 := by
        split at h1
        · cases h2 : s.flushWrapping with
          | error e => simp [h2, andThen] at h1
          | ok s2 =>
            simp only [h2, andThen] at h1; injection h1 with h1; subst h1
            obtain ⟨⟨f2, w2⟩, _⟩ := flushWrapping_step s s2 h h2
            obtain ⟨⟨f3, w3⟩, _⟩ := addLine_step s2 (.rule (List.replicate s.width Seg.vert) s2.annStack) f2 (by simp [rlw]; omega)
            exact ⟨f3, w3.trans w2⟩
        · injection h1 with h1; subst h1; exact ⟨h, rfl⟩
      simp only [andThen] at he
      cases h3 : s1.appendSub c [] [] with
      | error e => simp [h3] at he
      | ok s2 =>
        simp only [h3] at he
        have hcw := hc c (by simp)
        have st2 := appendSub_step s1 c s2 [] [] st1.1 hcw.1 (by simp [dispW]; rw [st1.2]; exact hcw.2) (by simp [dispW]; rw [st1.2]; exact hcw.2) h3
        have st3 := ih false s2 s' st2.1 (fun x hx => by
          have := hc x (by simp [hx]); rw [st2.2, st1.2]; exact this) he
        exact ⟨st3.1, (st3.2.trans st2.2).trans st1.2⟩

theorem appendVertRow_step (s s' : SubR) (cfg : Cfg) (cols : List SubR) (h : s.Fits) (hc : ∀ c ∈ cols, c.Fits ∧ c.width ≤ s.width)
    (he : s.appendVertRow cfg cols = .ok s') : Step s s' := by
  unfold SubR.appendVertRow at he
  cases h1 : s.flushWrapping with
  | error e => simp [h1, andThen] at he
  | ok s0 =>
    simp only [h1, andThen] at he
    obtain ⟨⟨f0, w0⟩, _⟩ := flushWrapping_step s s0 h h1
    cases h2 : vertCells cfg true s0 cols with
    | error e => simp [h2] at he
    | ok s1 =>
      simp only [h2] at he
      have st1 := vertCells_step cfg cols true s0 s1 f0 (fun c hx => by rw [w0]; exact hc c hx) h2
      split at he
      · cases h3 : s1.flushWrapping with
        | error e => simp [h3] at he
        | ok s2 =>
          simp only [h3] at he; injection he with he; subst he
          obtain ⟨⟨f2, w2⟩, _⟩ := flushWrapping_step s1 s2 st1.1 h3
          obtain ⟨⟨f3, w3⟩, _⟩ := addLine_step s2 (.rule (List.replicate s2.width Seg.straight) s2.annStack) f2 (by simp [rlw])
          exact ⟨f3, ((w3.trans w2).trans st1.2).trans w0⟩
      · injection he with he; subst he
        exact ⟨st1.1, st1.2.trans w0⟩

theorem tableTop_step (s s' : SubR) (cfg : Cfg) (tw : Nat) (h : s.Fits) (htw : tw ≤ s.width) (he : s.tableTop cfg tw = .ok s') : Step s s' := by
  unfold SubR.tableTop at he
  split at he
  · cases h4 : s.flushWrapping with
    | error e => simp [h4, andThen] at he
    | ok s2 =>
      simp only [h4, andThen] at he; injection he with he; subst he
      obtain ⟨⟨f2, w2⟩, _⟩ := flushWrapping_step s s2 h h4
      obtain ⟨⟨f4, w4⟩, _⟩ := addLine_step s2 (.rule (List.replicate tw Seg.straight) s2.annStack) f2
        (by simp only [rlw, List.length_replicate]; rw [w2]; exact htw)
      exact ⟨f4, w4.trans w2⟩
  · injection he with he; subst he; exact ⟨h, rfl⟩

/-! ## column allocation -/

theorem filter_length_le {α : Type} (p : α → Bool) (l : List α) : (l.filter p).length ≤ l.length := List.length_filter_le p l

theorem allocCols_ok (cfg : Cfg) (width : Nat) (cols : List SizeEst) (ws : List Nat) (vert : Bool) (tw : Nat)
    (h : allocCols cfg width cols = .ok (ws, vert, tw)) :
    tw ≤ width ∧ (vert = true → ∀ x ∈ ws, x ≤ width) ∧ (vert = false → ws.sum + ws.length ≤ width + 1) := by
  unfold allocCols at h
  simp only [] at h
  split at h
  · injection h with h
    simp only [Prod.mk.injEq] at h
    obtain ⟨rfl, rfl, rfl⟩ := h
    refine ⟨Nat.le_refl _, ?_, by simp⟩
    intro _ x hx
    simp only [List.mem_map] at hx
    obtain ⟨_, _, rfl⟩ := hx
    exact Nat.le_refl _
  · rename_i hv
    simp only [Bool.or_eq_true, decide_eq_true_eq, not_or, Nat.not_lt] at hv
    generalize hinit : (cols.map fun sz =>
      if sz.size = 0 then 0 else
        min sz.size (if 18446744073709551615 / width ≤ sz.size then max ((width / (cols.map (·.size)).sum) * sz.size) sz.minW
                     else max (sz.size * width / (cols.map (·.size)).sum) sz.minW)) = init at h
    have hlen : init.length = cols.length := by rw [← hinit]; simp
    have hws : ∀ ws', (if init.isEmpty = true then Except.ok init else shrinkLoop width cols (init.sum + 2) init) = .ok ws' →
        ws'.sum + ws'.length - 1 ≤ width := by
      intro ws' hh
      split at hh
      · rename_i he
        injection hh with hh; subst hh
        simp only [List.isEmpty_iff] at he
        subst he; simp
      · obtain ⟨w2, e1, e2, e3⟩ := shrinkLoop_ok width cols (init.sum + 2) init (by omega) (by
          have := hv.2.1
          have : cols.length - 1 ≤ (cols.map (·.minW)).sum + (cols.length - 1) := by omega
          omega) (by omega)
        rw [e1] at hh; injection hh with hh; subst hh
        exact e3
    cases h1 : (if init.isEmpty = true then Except.ok init else shrinkLoop width cols (init.sum + 2) init) with
    | error e => rw [h1] at h; simp [andThen] at h
    | ok ws' =>
      rw [h1] at h
      simp only [andThen_ok_eq] at h
      injection h with h
      simp only [Prod.mk.injEq] at h
      obtain ⟨rfl, rfl, rfl⟩ := h
      have := hws ws' h1
      have hf := filter_length_le (fun x => decide (x > 0)) ws'
      have hz : ws'.length = 0 → ws'.sum = 0 := by
        intro h0; have := List.eq_nil_of_length_eq_zero h0; subst this; rfl
      refine ⟨by omega, by simp, fun _ => by omega⟩

/-! ## programs with tables -/

mutual
def wfOp : Op → Bool
  | .sub p _ first rest _ body => decide (dispW first ≤ p) && decide (dispW rest ≤ p) && wfOps body
  | .table _ rows => wfRows rows
  | _ => true
def wfOps : List Op → Bool
  | [] => true
  | op :: ops => wfOp op && wfOps ops
/-- rows of a table: the cells of a row occupy disjoint, increasing column ranges -/
def wfRows : List Op → Bool
  | [] => true
  | .row pre post cells :: rs => wfOps pre && wfOps post && wfCells 0 cells && wfRows rs
  | _ :: rs => wfRows rs
def wfCells (next : Nat) : List Op → Bool
  | [] => true
  | .cell colno span body :: cs => decide (next ≤ colno) && wfOps body && wfCells (colno + span) cs
  | _ :: cs => wfCells next cs
end

theorem sum_drop_le_sum (l : List Nat) (k : Nat) : (l.drop k).sum ≤ l.sum := by
  have h2 : (l.take k ++ l.drop k).sum = (l.take k).sum + (l.drop k).sum := List.sum_append
  rw [List.take_append_drop] at h2
  omega

theorem sum_drop_mono (l : List Nat) (a b : Nat) (h : a ≤ b) : (l.drop b).sum ≤ (l.drop a).sum := by
  have : l.drop b = (l.drop a).drop (b - a) := by rw [List.drop_drop]; congr 1; omega
  rw [this]; exact sum_drop_le_sum _ _

theorem sum_take_drop (l : List Nat) (a n : Nat) : ((l.drop a).take n).sum + (l.drop (a + n)).sum = (l.drop a).sum := by
  have h2 : (((l.drop a).take n) ++ ((l.drop a).drop n)).sum = ((l.drop a).take n).sum + ((l.drop a).drop n).sum := List.sum_append
  rw [List.take_append_drop, List.drop_drop] at h2
  omega

theorem fresh_fits (w : Nat) (ann : Tag) : ({ width := w, annStack := ann } : SubR).Fits :=
  ⟨fun l hl => by simp at hl, fun e he' => by simp at he', fun x hx => by simp at hx⟩

mutual
theorem runOp_fitsT (wm : SubR → Cfg → Nat → Nat → Except Err Nat) (cfg : Cfg) (d : Deco)
    (hwm : WMContract wm cfg) (hov : cfg.overflow = false) :
    (op : Op) → (t t' : RS) → wfOp op = true → t.cur.Fits → runOp wm cfg d t op = .ok t' → Step t.cur t'.cur
  | .sub p m first rest asBlock body, t, t', hok, hf, he => by
    simp only [wfOp, Bool.and_eq_true, decide_eq_true_eq] at hok
    obtain ⟨⟨hp1, hp2⟩, hbody⟩ := hok
    simp only [runOp] at he
    cases h1 : wm t.cur cfg p m with
    | error e => simp [h1, andThen] at he
    | ok w =>
      simp only [h1, andThen_ok_eq] at he
      have hw := hwm t.cur p m w h1
      cases h2 : runOps wm cfg d { links := t.links, cur := ({ width := w, annStack := t.cur.annStack } : SubR) } body with
      | error e => simp [h2, andThen_error_eq] at he
      | ok r =>
        simp only [h2, andThen_ok_eq] at he
        have hsub := runOps_fitsT wm cfg d hwm hov body _ r hbody (fresh_fits w _) h2
        generalize h3 : (if asBlock = true then t.cur.startBlock else Except.ok t.cur) = r3 at he
        cases r3 with
        | error e => simp [andThen_error_eq] at he
        | ok s1 =>
          simp only [andThen_ok_eq] at he
          have st1 : Step t.cur s1 := by
            split at h3
            · exact startBlock_step _ s1 hf h3
            · injection h3 with h3; subst h3; exact ⟨hf, rfl⟩
          cases h4 : s1.appendSub r.cur first rest with
          | error e => simp [h4, andThen_error_eq] at he
          | ok s2 =>
            simp only [h4, andThen_ok_eq] at he; injection he with he; subst he
            have hwr : r.cur.width = w := hsub.2
            have st2 := appendSub_step s1 r.cur s2 first rest st1.1 hsub.1
              (by rw [hwr, st1.2]; omega) (by rw [hwr, st1.2]; omega) h4
            split
            · exact ⟨⟨st2.1.lines, st2.1.frags, st2.1.wrap⟩, st2.2.trans st1.2⟩
            · exact ⟨st2.1, st2.2.trans st1.2⟩
  | .table cols rows, t, t', hok, hf, he => by
    simp only [wfOp] at hok
    simp only [runOp] at he
    cases h1 : allocCols cfg t.cur.width cols with
    | error e => simp [h1, andThen] at he
    | ok v =>
      obtain ⟨ws, vert, tw⟩ := v
      simp only [h1, andThen_ok_eq] at he
      obtain ⟨a1, a2, a3⟩ := allocCols_ok cfg _ cols ws vert tw h1
      cases h2 : t.cur.startBlock with
      | error e => simp [h2, andThen_error_eq] at he
      | ok s1 =>
        simp only [h2, andThen_ok_eq] at he
        have st1 := startBlock_step _ s1 hf h2
        cases h3 : s1.tableTop cfg tw with
        | error e => simp [h3, andThen_error_eq] at he
        | ok s3 =>
          simp only [h3, andThen_ok_eq] at he
          have st3 : Step s1 s3 := tableTop_step s1 s3 cfg tw st1.1 (by rw [st1.2]; exact a1) h3
          have hw3 : s3.width = t.cur.width := st3.2.trans st1.2
          have st4 := runRows_fitsT wm cfg d hwm hov rows ws vert { t with cur := s3 } t' hok st3.1
            (fun hv x hx => by show x ≤ s3.width; rw [hw3]; exact a2 hv x hx)
            (fun hv => by show ws.sum + ws.length ≤ s3.width + 1; rw [hw3]; exact a3 hv) he
          exact ⟨st4.1, st4.2.trans hw3⟩
  | .row _ _ _, t, t', _, hf, he => by simp [runOp] at he; subst he; exact ⟨hf, rfl⟩
  | .cell _ _ _, t, t', _, hf, he => by simp [runOp] at he; subst he; exact ⟨hf, rfl⟩
  | .pushWs ws, t, t', _, hf, he => stepSimple_step cfg d t t' _ hf hov (by simpa [runOp] using he)
  | .popWs, t, t', _, hf, he => stepSimple_step cfg d t t' _ hf hov (by simpa [runOp] using he)
  | .pushPre, t, t', _, hf, he => stepSimple_step cfg d t t' _ hf hov (by simpa [runOp] using he)
  | .popPre, t, t', _, hf, he => stepSimple_step cfg d t t' _ hf hov (by simpa [runOp] using he)
  | .pushAnn a, t, t', _, hf, he => stepSimple_step cfg d t t' _ hf hov (by simpa [runOp] using he)
  | .popAnn, t, t', _, hf, he => stepSimple_step cfg d t t' _ hf hov (by simpa [runOp] using he)
  | .text x, t, t', _, hf, he => stepSimple_step cfg d t t' _ hf hov (by simpa [runOp] using he)
  | .frag n, t, t', _, hf, he => stepSimple_step cfg d t t' _ hf hov (by simpa [runOp] using he)
  | .startLink h, t, t', _, hf, he => stepSimple_step cfg d t t' _ hf hov (by simpa [runOp] using he)
  | .endLink, t, t', _, hf, he => stepSimple_step cfg d t t' _ hf hov (by simpa [runOp] using he)
  | .startAnn a x s, t, t', _, hf, he => stepSimple_step cfg d t t' _ hf hov (by simpa [runOp] using he)
  | .endAnn x s, t, t', _, hf, he => stepSimple_step cfg d t t' _ hf hov (by simpa [runOp] using he)
  | .image a b, t, t', _, hf, he => stepSimple_step cfg d t t' _ hf hov (by simpa [runOp] using he)
  | .startBlock, t, t', _, hf, he => stepSimple_step cfg d t t' _ hf hov (by simpa [runOp] using he)
  | .endBlock, t, t', _, hf, he => stepSimple_step cfg d t t' _ hf hov (by simpa [runOp] using he)
  | .newLine, t, t', _, hf, he => stepSimple_step cfg d t t' _ hf hov (by simpa [runOp] using he)
  | .newLineHard, t, t', _, hf, he => stepSimple_step cfg d t t' _ hf hov (by simpa [runOp] using he)
theorem runOps_fitsT (wm : SubR → Cfg → Nat → Nat → Except Err Nat) (cfg : Cfg) (d : Deco)
    (hwm : WMContract wm cfg) (hov : cfg.overflow = false) :
    (ops : List Op) → (t t' : RS) → wfOps ops = true → t.cur.Fits → runOps wm cfg d t ops = .ok t' → Step t.cur t'.cur
  | [], t, t', _, hf, he => by simp [runOps] at he; subst he; exact ⟨hf, rfl⟩
  | op :: ops, t, t', hok, hf, he => by
    simp only [wfOps, Bool.and_eq_true] at hok
    obtain ⟨h1, h2⟩ := hok
    simp only [runOps] at he
    cases h3 : runOp wm cfg d t op with
    | error e => simp [h3, andThen] at he
    | ok t1 =>
      simp only [h3, andThen_ok_eq] at he
      have s1 := runOp_fitsT wm cfg d hwm hov op t t1 h1 hf h3
      have s2 := runOps_fitsT wm cfg d hwm hov ops t1 t' h2 s1.1 he
      exact ⟨s2.1, s2.2.trans s1.2⟩
theorem runRows_fitsT (wm : SubR → Cfg → Nat → Nat → Except Err Nat) (cfg : Cfg) (d : Deco)
    (hwm : WMContract wm cfg) (hov : cfg.overflow = false) :
    (rows : List Op) → (ws : List Nat) → (vert : Bool) → (t t' : RS) → wfRows rows = true → t.cur.Fits →
    (vert = true → ∀ x ∈ ws, x ≤ t.cur.width) → (vert = false → ws.sum + ws.length ≤ t.cur.width + 1) →
    runRows wm cfg d ws vert t rows = .ok t' → Step t.cur t'.cur
  | [], ws, vert, t, t', _, hf, _, _, he => by simp [runRows] at he; subst he; exact ⟨hf, rfl⟩
  | .row pre post cells :: rs, ws, vert, t, t', hok, hf, hv, hnv, he => by
    simp only [wfRows, Bool.and_eq_true] at hok
    obtain ⟨⟨⟨hpre, hpost⟩, hcells⟩, hrs⟩ := hok
    simp only [runRows] at he
    cases h1 : runOps wm cfg d t pre with
    | error e => simp [h1, andThen] at he
    | ok t1 =>
      simp only [h1, andThen_ok_eq] at he
      have st1 := runOps_fitsT wm cfg d hwm hov pre t t1 hpre hf h1
      cases h2 : runCells wm cfg d ws vert t1.cur.annStack t1.links cells with
      | error e => simp [h2, andThen_error_eq] at he
      | ok v =>
        obtain ⟨links, subs⟩ := v
        simp only [h2, andThen_ok_eq] at he
        obtain ⟨c1, c2, c3⟩ := runCells_fitsT wm cfg d hwm hov cells ws vert t1.cur.annStack t1.links 0 links subs hcells h2
        cases h3 : t1.cur.appendRow cfg vert subs with
        | error e => simp [h3, andThen_error_eq] at he
        | ok s2 =>
          simp only [h3, andThen_ok_eq] at he
          have st2 : Step t1.cur s2 := by
            unfold SubR.appendRow at h3
            split at h3
            · rename_i hvt
              exact appendVertRow_step _ s2 cfg subs st1.1 (fun c hc => ⟨c1 c hc, by
                have := c2 hvt t1.cur.width (by rw [st1.2]; exact hv hvt) c hc; exact this⟩) h3
            · rename_i hvf
              simp only [Bool.not_eq_true] at hvf
              split at h3
              · have := c3 hvf
                simp only [List.drop_zero, Nat.sub_zero] at this
                exact appendColumns_step _ s2 cfg subs st1.1 c1 (by have := hnv hvf; rw [st1.2]; omega) h3
              · injection h3 with h3; subst h3; exact ⟨st1.1, rfl⟩
          cases h4 : runOps wm cfg d { links := links, cur := s2 } post with
          | error e => simp [h4, andThen_error_eq] at he
          | ok t3 =>
            simp only [h4, andThen_ok_eq] at he
            have st3 := runOps_fitsT wm cfg d hwm hov post _ t3 hpost st2.1 h4
            have hw3 : t3.cur.width = t.cur.width := (st3.2.trans st2.2).trans st1.2
            have st4 := runRows_fitsT wm cfg d hwm hov rs ws vert t3 t' hrs st3.1
              (fun h x hx => by rw [hw3]; exact hv h x hx) (fun h => by rw [hw3]; exact hnv h) he
            exact ⟨st4.1, st4.2.trans hw3⟩
  | .sub _ _ _ _ _ _ :: rs, ws, vert, t, t', hok, hf, hv, hnv, he => by
    simp only [wfRows] at hok; simp only [runRows] at he
    exact runRows_fitsT wm cfg d hwm hov rs ws vert t t' hok hf hv hnv he
  | .table _ _ :: rs, ws, vert, t, t', hok, hf, hv, hnv, he => by
    simp only [wfRows] at hok; simp only [runRows] at he
    exact runRows_fitsT wm cfg d hwm hov rs ws vert t t' hok hf hv hnv he
  | .cell _ _ _ :: rs, ws, vert, t, t', hok, hf, hv, hnv, he => by
    simp only [wfRows] at hok; simp only [runRows] at he
    exact runRows_fitsT wm cfg d hwm hov rs ws vert t t' hok hf hv hnv he
  | .pushWs _ :: rs, ws, vert, t, t', hok, hf, hv, hnv, he => by
    simp only [wfRows] at hok; simp only [runRows] at he
    exact runRows_fitsT wm cfg d hwm hov rs ws vert t t' hok hf hv hnv he
  | .popWs :: rs, ws, vert, t, t', hok, hf, hv, hnv, he => by
    simp only [wfRows] at hok; simp only [runRows] at he
    exact runRows_fitsT wm cfg d hwm hov rs ws vert t t' hok hf hv hnv he
  | .pushPre :: rs, ws, vert, t, t', hok, hf, hv, hnv, he => by
    simp only [wfRows] at hok; simp only [runRows] at he
    exact runRows_fitsT wm cfg d hwm hov rs ws vert t t' hok hf hv hnv he
  | .popPre :: rs, ws, vert, t, t', hok, hf, hv, hnv, he => by
    simp only [wfRows] at hok; simp only [runRows] at he
    exact runRows_fitsT wm cfg d hwm hov rs ws vert t t' hok hf hv hnv he
  | .pushAnn _ :: rs, ws, vert, t, t', hok, hf, hv, hnv, he => by
    simp only [wfRows] at hok; simp only [runRows] at he
    exact runRows_fitsT wm cfg d hwm hov rs ws vert t t' hok hf hv hnv he
  | .popAnn :: rs, ws, vert, t, t', hok, hf, hv, hnv, he => by
    simp only [wfRows] at hok; simp only [runRows] at he
    exact runRows_fitsT wm cfg d hwm hov rs ws vert t t' hok hf hv hnv he
  | .text _ :: rs, ws, vert, t, t', hok, hf, hv, hnv, he => by
    simp only [wfRows] at hok; simp only [runRows] at he
    exact runRows_fitsT wm cfg d hwm hov rs ws vert t t' hok hf hv hnv he
  | .frag _ :: rs, ws, vert, t, t', hok, hf, hv, hnv, he => by
    simp only [wfRows] at hok; simp only [runRows] at he
    exact runRows_fitsT wm cfg d hwm hov rs ws vert t t' hok hf hv hnv he
  | .startLink _ :: rs, ws, vert, t, t', hok, hf, hv, hnv, he => by
    simp only [wfRows] at hok; simp only [runRows] at he
    exact runRows_fitsT wm cfg d hwm hov rs ws vert t t' hok hf hv hnv he
  | .endLink :: rs, ws, vert, t, t', hok, hf, hv, hnv, he => by
    simp only [wfRows] at hok; simp only [runRows] at he
    exact runRows_fitsT wm cfg d hwm hov rs ws vert t t' hok hf hv hnv he
  | .startAnn _ _ _ :: rs, ws, vert, t, t', hok, hf, hv, hnv, he => by
    simp only [wfRows] at hok; simp only [runRows] at he
    exact runRows_fitsT wm cfg d hwm hov rs ws vert t t' hok hf hv hnv he
  | .endAnn _ _ :: rs, ws, vert, t, t', hok, hf, hv, hnv, he => by
    simp only [wfRows] at hok; simp only [runRows] at he
    exact runRows_fitsT wm cfg d hwm hov rs ws vert t t' hok hf hv hnv he
  | .image _ _ :: rs, ws, vert, t, t', hok, hf, hv, hnv, he => by
    simp only [wfRows] at hok; simp only [runRows] at he
    exact runRows_fitsT wm cfg d hwm hov rs ws vert t t' hok hf hv hnv he
  | .startBlock :: rs, ws, vert, t, t', hok, hf, hv, hnv, he => by
    simp only [wfRows] at hok; simp only [runRows] at he
    exact runRows_fitsT wm cfg d hwm hov rs ws vert t t' hok hf hv hnv he
  | .endBlock :: rs, ws, vert, t, t', hok, hf, hv, hnv, he => by
    simp only [wfRows] at hok; simp only [runRows] at he
    exact runRows_fitsT wm cfg d hwm hov rs ws vert t t' hok hf hv hnv he
  | .newLine :: rs, ws, vert, t, t', hok, hf, hv, hnv, he => by
    simp only [wfRows] at hok; simp only [runRows] at he
    exact runRows_fitsT wm cfg d hwm hov rs ws vert t t' hok hf hv hnv he
  | .newLineHard :: rs, ws, vert, t, t', hok, hf, hv, hnv, he => by
    simp only [wfRows] at hok; simp only [runRows] at he
    exact runRows_fitsT wm cfg d hwm hov rs ws vert t t' hok hf hv hnv he
theorem runCells_fitsT (wm : SubR → Cfg → Nat → Nat → Except Err Nat) (cfg : Cfg) (d : Deco)
    (hwm : WMContract wm cfg) (hov : cfg.overflow = false) :
    (cells : List Op) → (ws : List Nat) → (vert : Bool) → (ann : Tag) → (links : List (List Ch)) → (next : Nat) →
    (l2 : List (List Ch)) → (subs : List SubR) → wfCells next cells = true →
    runCells wm cfg d ws vert ann links cells = .ok (l2, subs) →
    (∀ c ∈ subs, c.Fits) ∧ (vert = true → ∀ W, (∀ x ∈ ws, x ≤ W) → ∀ c ∈ subs, c.width ≤ W) ∧
    (vert = false → (subs.map fun c => c.width + 1).sum ≤ (ws.drop next).sum + (ws.length - next))
  | [], ws, vert, ann, links, next, l2, subs, _, he => by
    simp [runCells] at he; obtain ⟨_, rfl⟩ := he; simp
  | .cell colno span body :: cs, ws, vert, ann, links, next, l2, subs, hok, he => by
    simp only [wfCells, Bool.and_eq_true, decide_eq_true_eq] at hok
    obtain ⟨⟨hnext, hbody⟩, hcs⟩ := hok
    simp only [runCells] at he
    split at he
    · simp at he
    · rename_i hidx
      unfold cellOob at hidx
      split at he
      · rename_i hz
        -- zero-width cell: skipped
        obtain ⟨c1, c2, c3⟩ := runCells_fitsT wm cfg d hwm hov cs ws vert ann links (colno + span) l2 subs hcs he
        refine ⟨c1, c2, ?_⟩
        intro hvf
        have := c3 hvf
        have hm := sum_drop_mono ws next (colno + span) (by omega)
        omega
      · rename_i hnz
        generalize hcw : cellInner ws vert colno span = cw at he hnz
        generalize hcell : cellOuter vert cw span = cellW at he
        unfold cellInner at hcw
        unfold cellOuter at hcell
        cases h1 : runOps wm cfg d { links := links, cur := ({ width := cellW, annStack := ann } : SubR) } body with
        | error e => simp [h1, andThen] at he
        | ok r =>
          simp only [h1, andThen_ok_eq] at he
          have stb := runOps_fitsT wm cfg d hwm hov body _ r hbody (fresh_fits cellW ann) h1
          cases h2 : runCells wm cfg d ws vert ann r.links cs with
          | error e => simp [h2, andThen_error_eq] at he
          | ok v =>
            obtain ⟨l3, subs2⟩ := v
            simp only [h2, andThen_ok_eq] at he
            injection he with he
            simp only [Prod.mk.injEq] at he
            obtain ⟨_, rfl⟩ := he
            obtain ⟨c1, c2, c3⟩ := runCells_fitsT wm cfg d hwm hov cs ws vert ann r.links (colno + span) l3 subs2 hcs h2
            have hwr : r.cur.width = cellW := stb.2
            refine ⟨?_, ?_, ?_⟩
            · intro c hc
              simp only [List.mem_cons] at hc
              rcases hc with rfl | hc
              · exact stb.1
              · exact c1 c hc
            · intro hvt W hW c hc
              simp only [List.mem_cons] at hc
              rcases hc with rfl | hc
              · rw [hwr, ← hcell, ← hcw]
                simp only [hvt, if_true]
                simp only [hvt, if_true, ge_iff_le, decide_eq_true_eq, Nat.not_le] at hidx
                have : ws.getD colno 0 = ws[colno] := by simp [hidx]
                rw [this]; exact hW _ (List.getElem_mem _)
              · exact c2 hvt W hW c hc
            · intro hvf
              have h3 := c3 hvf
              simp only [hvf, Bool.false_eq_true, if_false, gt_iff_lt, decide_eq_true_eq, Nat.not_lt] at hidx hcw hcell
              simp only [List.map_cons, List.sum_cons, hwr]
              have hsp : 0 < span := by
                rcases Nat.eq_zero_or_pos span with h0 | h0
                · subst h0; simp at hcw; omega
                · exact h0
              have e1 := sum_take_drop ws colno span
              have e2 := sum_drop_mono ws next colno hnext
              omega
  | .sub _ _ _ _ _ _ :: cs, ws, vert, ann, links, next, l2, subs, hok, he => by
    simp only [wfCells] at hok; simp only [runCells] at he
    exact runCells_fitsT wm cfg d hwm hov cs ws vert ann links next l2 subs hok he
  | .table _ _ :: cs, ws, vert, ann, links, next, l2, subs, hok, he => by
    simp only [wfCells] at hok; simp only [runCells] at he
    exact runCells_fitsT wm cfg d hwm hov cs ws vert ann links next l2 subs hok he
  | .row _ _ _ :: cs, ws, vert, ann, links, next, l2, subs, hok, he => by
    simp only [wfCells] at hok; simp only [runCells] at he
    exact runCells_fitsT wm cfg d hwm hov cs ws vert ann links next l2 subs hok he
  | .pushWs _ :: cs, ws, vert, ann, links, next, l2, subs, hok, he => by
    simp only [wfCells] at hok; simp only [runCells] at he
    exact runCells_fitsT wm cfg d hwm hov cs ws vert ann links next l2 subs hok he
  | .popWs :: cs, ws, vert, ann, links, next, l2, subs, hok, he => by
    simp only [wfCells] at hok; simp only [runCells] at he
    exact runCells_fitsT wm cfg d hwm hov cs ws vert ann links next l2 subs hok he
  | .pushPre :: cs, ws, vert, ann, links, next, l2, subs, hok, he => by
    simp only [wfCells] at hok; simp only [runCells] at he
    exact runCells_fitsT wm cfg d hwm hov cs ws vert ann links next l2 subs hok he
  | .popPre :: cs, ws, vert, ann, links, next, l2, subs, hok, he => by
    simp only [wfCells] at hok; simp only [runCells] at he
    exact runCells_fitsT wm cfg d hwm hov cs ws vert ann links next l2 subs hok he
  | .pushAnn _ :: cs, ws, vert, ann, links, next, l2, subs, hok, he => by
    simp only [wfCells] at hok; simp only [runCells] at he
    exact runCells_fitsT wm cfg d hwm hov cs ws vert ann links next l2 subs hok he
  | .popAnn :: cs, ws, vert, ann, links, next, l2, subs, hok, he => by
    simp only [wfCells] at hok; simp only [runCells] at he
    exact runCells_fitsT wm cfg d hwm hov cs ws vert ann links next l2 subs hok he
  | .text _ :: cs, ws, vert, ann, links, next, l2, subs, hok, he => by
    simp only [wfCells] at hok; simp only [runCells] at he
    exact runCells_fitsT wm cfg d hwm hov cs ws vert ann links next l2 subs hok he
  | .frag _ :: cs, ws, vert, ann, links, next, l2, subs, hok, he => by
    simp only [wfCells] at hok; simp only [runCells] at he
    exact runCells_fitsT wm cfg d hwm hov cs ws vert ann links next l2 subs hok he
  | .startLink _ :: cs, ws, vert, ann, links, next, l2, subs, hok, he => by
    simp only [wfCells] at hok; simp only [runCells] at he
    exact runCells_fitsT wm cfg d hwm hov cs ws vert ann links next l2 subs hok he
  | .endLink :: cs, ws, vert, ann, links, next, l2, subs, hok, he => by
    simp only [wfCells] at hok; simp only [runCells] at he
    exact runCells_fitsT wm cfg d hwm hov cs ws vert ann links next l2 subs hok he
  | .startAnn _ _ _ :: cs, ws, vert, ann, links, next, l2, subs, hok, he => by
    simp only [wfCells] at hok; simp only [runCells] at he
    exact runCells_fitsT wm cfg d hwm hov cs ws vert ann links next l2 subs hok he
  | .endAnn _ _ :: cs, ws, vert, ann, links, next, l2, subs, hok, he => by
    simp only [wfCells] at hok; simp only [runCells] at he
    exact runCells_fitsT wm cfg d hwm hov cs ws vert ann links next l2 subs hok he
  | .image _ _ :: cs, ws, vert, ann, links, next, l2, subs, hok, he => by
    simp only [wfCells] at hok; simp only [runCells] at he
    exact runCells_fitsT wm cfg d hwm hov cs ws vert ann links next l2 subs hok he
  | .startBlock :: cs, ws, vert, ann, links, next, l2, subs, hok, he => by
    simp only [wfCells] at hok; simp only [runCells] at he
    exact runCells_fitsT wm cfg d hwm hov cs ws vert ann links next l2 subs hok he
  | .endBlock :: cs, ws, vert, ann, links, next, l2, subs, hok, he => by
    simp only [wfCells] at hok; simp only [runCells] at he
    exact runCells_fitsT wm cfg d hwm hov cs ws vert ann links next l2 subs hok he
  | .newLine :: cs, ws, vert, ann, links, next, l2, subs, hok, he => by
    simp only [wfCells] at hok; simp only [runCells] at he
    exact runCells_fitsT wm cfg d hwm hov cs ws vert ann links next l2 subs hok he
  | .newLineHard :: cs, ws, vert, ann, links, next, l2, subs, hok, he => by
    simp only [wfCells] at hok; simp only [runCells] at he
    exact runCells_fitsT wm cfg d hwm hov cs ws vert ann links next l2 subs hok he
end

end H2T
