import H2T.Spec.Greedy
import H2T.Lemmas.PreElement
import H2T.Spec.Parts
import H2T.Props.C13
import H2T.Lemmas.WrapInv
import H2T.Lemmas.GreedyMain
import H2T.Lemmas.GreedySpec

/-! # C04 — paragraph wrapping is exactly greedy word filling with whitespace collapsed

`Spec.greedy` (H2T/Spec/Greedy.lean) is the reference: words are placed on the current line behind one space
when they fit, otherwise on a new line; a word wider than a line is cut into maximal pieces that never split a
character; `TooNarrow` exactly when a character is wider than a whole line.

Status: **proved in full** for the wrap machine in normal white-space mode with the default options (no width
overflow, no block padding): `wrap_eq_greedy_full`.  The paragraph may be fed to the machine in any number of
`add_text` calls with arbitrary tags (inline elements starting and ending anywhere, also in the middle of a word)
and with fragment markers anywhere between them; the lines are those of the reference applied to the words of the
concatenated text, and the error is the reference's error.  The proof is a refinement in three layers
(H2T/Lemmas/Greedy.lean: the piece loop of `flush_word_hard_wrap` against character-by-character filling;
GreedyWord.lean: pieces, fragment markers and word placement; GreedyMain.lean: characters, parts, paragraph).
The hypothesis that every word has positive display width is the property's own domain.  It used to be necessary for a
bad reason — the machine did not flush a word of width 0 at the following space; that was a genuine defect, repaired by
`fix:` 33c7307 (`zero_width_word_kept_apart`).  It is still needed at the start of a line, where the machine does not
separate a word without width from the next word (known finding `C04-zero-width-word-at-line-start`).
Width 0 is covered by `wrap_zero_width`.
**End to end**: the render tree of a paragraph holding one text (`paragraph_is_greedy`: sub-renderer, block start,
`add_inline_text`, `into_lines`) and the whole pipeline on the parsed document `<p>text</p>` without style sheets
(`paragraph_document_is_greedy`: style computation and tree building reduce in the kernel) return exactly the reference's
lines — or its error — under the default wrapping options.

Also proved: every emitted line fits the width (all inputs, all tags, all modes); whitespace runs collapse and any
whitespace character acts as a space; whitespace at the start of a line is dropped; a word that fits is placed
whole behind exactly the pending space; and sanity theorems about the reference itself (`spec_*`).
Independently of the theorems, the check's search oracle compares the real library with an independent greedy
wrapper written in Rust on exhaustive small and random large inputs, and the correspondence run ties the machine
of this model to the library. -/

namespace H2T.C04
open H2T.Spec

/-- the text of the lines a block returns (tags and fragment markers forgotten) -/
def linesText (ls : List TLine) : List (List Ch) :=
  ls.map fun l => l.filterMap fun e => match e with | .cell c => some c.ch | .frag _ => none

/-- running the wrap machine on a paragraph given as parts, then finishing -/
def wrapParts (w : Nat) (parts : List Part) : Except Err (List (List Ch)) :=
  andThen (({ width := w } : WB).runParts parts) fun b => andThen b.finish fun ls => .ok (linesText ls)

/-- **C04, full statement**: for every split of a text over `add_text` calls with arbitrary tags and fragment
    markers, every width ≥ 1, and words of positive display width, the machine's result (lines or error) is the
    reference's. -/
theorem wrap_eq_greedy_full (w : Nat) (parts : List Part) (hw : 1 ≤ w)
    (hpos : ∀ wd ∈ words (partsText parts), 0 < lwc wd) :
    wrapParts w parts = greedy w (words (partsText parts)) := by
  have hrel : Rel ({ width := w } : WB) ⟨[], []⟩ [] :=
    ⟨⟨rfl, rfl, rfl, rfl, rfl, by simp⟩, rfl, rfl, by simp, by simp, by simp⟩
  have h := runParts_refines w hw parts _ _ [] hrel rfl hpos
  have he := ExRel_SameLines_eq h
  unfold wrapParts
  rw [andThen_assoc]
  have hg : greedy w (words (partsText parts)) = andThen ((⟨[], []⟩ : G).places w (words (partsText parts))) specEnd := by
    unfold greedy specEnd
    cases (⟨[], []⟩ : G).places w (words (partsText parts)) <;> rfl
  rw [hg]
  exact he

/-- the hypotheses of `wrap_eq_greedy_full` are satisfiable on a non-trivial paragraph: three parts with
    different tags, an element boundary inside a word, a fragment marker, an over-long word -/
example : (1 ≤ 3) ∧ (∀ wd ∈ words (partsText [.text [] [] (strCh "aaa b"), .frag (strCh "id"),
    .text [Ann.em] [Ann.em] (strCh "b  ccc"), .text [] [] (strCh "ccc d")]), 0 < lwc wd) := by decide +kernel

/-- a word consisting of a zero-width character is a word like any other: it is flushed at the space that follows it and
    does not run into the next word (before fix "flush a pending word that has no width" it did: the flush was guarded by
    `wordlen > 0`, and this statement was false — the machine gave `a ​b` with the second space lost) -/
theorem zero_width_word_kept_apart :
    let zw : Ch := ⟨0x200b, 0, false, false⟩
    let text := [mkCh 97, spaceCh, zw, spaceCh, mkCh 98]
    (wrapParts 10 [.text [] [] text]).toOption = some [[mkCh 97, spaceCh, zw, spaceCh, mkCh 98]] ∧
    (greedy 10 (words text)).toOption = some [[mkCh 97, spaceCh, zw, spaceCh, mkCh 98]] := by decide +kernel

/-! ## width 0 -/

theorem fill_zero (word : List Ch) : ∀ (g : G), lwc g.cur = 0 → 0 < lwc word → g.fill 0 word = .error .tooNarrow := by
  induction word with
  | nil => intro g _ h; simp at h
  | cons c cs ih =>
    intro g h0 hpos
    simp only [G.fill, G.fillCh]
    by_cases hc : c.w = 0
    · have : lwc g.cur + c.w ≤ 0 := by omega
      simp only [this, if_true]
      exact ih _ (by simp; omega) (by simp at hpos; omega)
    · have h2 : ¬ (0 + c.w ≤ 0) := by omega
      simp only [h0, h2, if_false, if_true]

theorem runParts_zero : ∀ (parts : List Part) (b : WB), b.width = 0 → b.overflow = false → partsText parts ≠ [] →
    b.runParts parts = .error .tooNarrow
  | [], b, _, _, h => by simp [partsText] at h
  | .frag n :: ps, b, hw, ho, h => by
    simp only [WB.runParts, WB.addPart, andThen_ok]
    exact runParts_zero ps _ hw ho (by simpa [partsText, Part.chars] using h)
  | .text mt wt cs :: ps, b, hw, ho, h => by
    simp only [WB.runParts, WB.addPart, WB.addText, WB.zeroGuard, hw, ho, if_true, Bool.false_eq_true, if_false]
    cases cs with
    | nil =>
      simp only [List.isEmpty_nil, Bool.not_true, Bool.false_eq_true, if_false, andThen_ok, WB.addTextGo]
      exact runParts_zero ps b hw ho (by simpa [partsText, Part.chars] using h)
    | cons c cs => simp

/-- at width 0 a paragraph with at least one word is `TooNarrow`, in the machine and in the reference -/
theorem wrap_zero_width (parts : List Part) (hne : words (partsText parts) ≠ [])
    (hpos : ∀ wd ∈ words (partsText parts), 0 < lwc wd) :
    wrapParts 0 parts = .error .tooNarrow ∧ greedy 0 (words (partsText parts)) = .error .tooNarrow := by
  constructor
  · have : partsText parts ≠ [] := by
      intro h; apply hne; rw [h]; rfl
    have hr := runParts_zero parts ({ width := 0 } : WB) rfl rfl this
    simp only [wrapParts, hr, andThen_err]
  · cases hws : words (partsText parts) with
    | nil => exact absurd hws hne
    | cons w ws =>
      have hw := hpos w (by rw [hws]; simp)
      simp [greedy, G.places, G.place, fill_zero w ⟨[], []⟩ rfl hw]

/-! ## consequences of the refinement: what the reference guarantees, the machine guarantees -/

/-- the reference's lines fit the width -/
theorem spec_lines_fit (W : Nat) (ws : List (List Ch)) (ls : List (List Ch)) (h : greedy W ws = .ok ls) :
    ∀ l ∈ ls, lwc l ≤ W := greedy_fits W ws ls h

/-- the reference lays out exactly the characters of the words, in order; everything else it emits is a space -/
theorem spec_conserves (W : Nat) (ws : List (List Ch)) (ls : List (List Ch)) (h : greedy W ws = .ok ls) :
    nonWs ls.flatten = nonWs ws.flatten := greedy_conserves W ws ls h

/-- **text conservation for a paragraph** (the wrap-layer core of C03): the non-whitespace characters of the
    machine's lines are exactly the word characters of the text, in order — nothing lost, duplicated, reordered
    or invented, for every split, tagging and width -/
theorem wrap_conserves_text (w : Nat) (parts : List Part) (ls : List (List Ch)) (hw : 1 ≤ w)
    (hpos : ∀ wd ∈ words (partsText parts), 0 < lwc wd) (h : wrapParts w parts = .ok ls) :
    nonWs ls.flatten = wordChars (partsText parts) := by
  rw [wrap_eq_greedy_full w parts hw hpos] at h
  rw [greedy_conserves w _ ls h, words_flatten, wordChars_nonWs]

/-- the machine's paragraph lines fit, as a corollary of the refinement (independent of the C02 invariant) -/
theorem wrap_lines_fit (w : Nat) (parts : List Part) (ls : List (List Ch)) (hw : 1 ≤ w)
    (hpos : ∀ wd ∈ words (partsText parts), 0 < lwc wd) (h : wrapParts w parts = .ok ls) :
    ∀ l ∈ ls, lwc l ≤ w := by
  rw [wrap_eq_greedy_full w parts hw hpos] at h
  exact greedy_fits w _ ls h

/-- every line fits (all tags, all splits): from the C02 wrap-layer invariant -/
theorem lines_fit (b : WB) (ls : List TLine) (hi : b.Inv) (ho : b.overflow = false) (h : b.finish = .ok ls) :
    ∀ l ∈ ls, lw l ≤ b.width :=
  finish_lines_fit b ls hi ho h

/-- whitespace runs collapse to one pending space, whichever whitespace characters they consist of -/
theorem ws_run_collapses (b b1 : WB) (mt wt : Tag) (cur cur1 : Bool) (c1 c2 : Ch) (h1 : c1.ws = true) (h2 : c2.ws = true)
    (hw : b.word.noContent = true) (hstep : b.addChar .normal mt wt cur c1 = .ok (b1, cur1)) :
    b1.addChar .normal mt wt cur1 c2 = .ok (b1, cur1) :=
  C13.second_ws_noop b b1 mt wt cur cur1 c1 c2 h1 h2 hw hstep

/-- no line begins with a space: whitespace met at the start of a line is dropped -/
theorem no_leading_space (b : WB) (mt wt : Tag) (cur : Bool) (c : Ch) (hc : c.ws = true) (hw : b.word.noContent = true)
    (hl : b.linelen = 0) : b.addChar .normal mt wt cur c = .ok (b, cur) :=
  C13.leading_ws_dropped b mt wt cur c hc hw hl

/-- a word that fits behind the pending space is placed whole, behind exactly `wslen` spaces (0 or 1 in normal
    mode); nothing else on the line or in the finished text changes -/
theorem fitting_word_placed (b b' : WB) (h : b.placeFits = .ok b') :
    lw b'.line = lw b.line + b.wslen + lw b.word ∧ b'.text = b.text ∧ b'.word = [] := by
  unfold WB.placeFits at h
  split at h
  · cases hs : b.spacetag with
    | none => simp [hs] at h
    | some t =>
      simp only [hs] at h; injection h with h; subst h
      simp [WB.pushWs, lw_replicate_spc]; omega
  · rename_i hz
    injection h with h; subst h
    have : b.wslen = 0 := by omega
    simp [this]

/-- the reference wrapper itself never makes a line wider than `W` when it places a word that fits -/
theorem spec_place_fits (W : Nat) (g : G) (word : List Ch) (hne : g.cur ≠ [])
    (hfit : lwc g.cur + 1 + lwc word ≤ W) :
    g.place W word = .ok { g with cur := g.cur ++ [spaceCh] ++ word } := by
  simp [G.place, hne, hfit]

/-! ## tests (not proofs): machine = reference on concrete inputs, checked by kernel evaluation -/

/-- "aaa bb  cccccc d" split over three tagged parts, widths 1..8 -/
example : ∀ w ∈ [1, 2, 3, 4, 5, 6, 7, 8],
    (wrapParts w [.text [] [] (strCh "aaa b"), .frag (strCh "id"), .text [Ann.em] [Ann.em] (strCh "b  ccc"), .text [] [] (strCh "ccc d")]).toOption
      = (greedy w (words (strCh "aaa bb  cccccc d"))).toOption := by decide +kernel

/-- a width-2 character at width 1 is TooNarrow in both -/
example :
    let wide : Ch := ⟨0x5b57, 2, false, false⟩
    (match wrapParts 1 [.text [] [] [mkCh 97, spaceCh, wide]] with | .error .tooNarrow => true | _ => false) = true ∧
    (match greedy 1 (words [mkCh 97, spaceCh, wide]) with | .error .tooNarrow => true | _ => false) = true := by decide +kernel

/-! ## end to end: a paragraph through the whole renderer and the whole pipeline -/

/-- the characters of a rendered line -/
def rlineChars : RLine → List Ch
  | .text tl => tl.filterMap fun e => match e with | .cell c => some c.ch | .frag _ => none
  | .rule b _ => b.chars

theorem compile_p_text (cfg : Cfg) (d : Deco) (s : List Ch) :
    compile cfg d (.box {} .block [.text {} s]) = [.startBlock, .text s, .endBlock] := by
  simp [compile, compileList, styleOpen, styleClose]

theorem noContent_no_marks (l : TLine) (h1 : l.noContent = true) (h2 : marks l = []) : l = [] := by
  cases l with
  | nil => rfl
  | cons e r =>
    cases e with
    | cell c => simp [TLine.noContent, Elt.isCell] at h1
    | frag n => simp [marks] at h2

/-- **a paragraph is wrapped greedily by the whole renderer** (default wrapping options): the lines `renderTree` returns
    for the tree `p[text]` — or its error — are those of the reference `greedy` on the words of the text -/
theorem paragraph_is_greedy (cfg : Cfg) (d : Deco) (w : Nat) (hw : 1 ≤ w) (hww : cfg.wrapWidth = none) (hpad : cfg.padBlocks = false)
    (hov : cfg.overflow = false) (s : List Ch) (hpos : ∀ wd ∈ words s, 0 < lwc wd) :
    (renderTree cfg d w (.box {} .block [.text {} s])).map (fun ls => ls.map rlineChars) = greedy w (words s) := by
  have hg := wrap_eq_greedy_full w [.text [] [] s] hw (by simpa [partsText, Part.chars] using hpos)
  simp only [partsText, Part.chars, List.append_nil] at hg
  rw [← hg]
  unfold wrapParts
  simp only [WB.runParts, WB.addPart, andThen]
  unfold renderTree
  rw [if_neg (by omega), compile_p_text]
  have hsb : ({ width := w } : SubR).startBlock = .ok { width := w } := by
    simp [SubR.startBlock, SubR.flushWrapping, andThen]
  have hadd : ({ width := w } : SubR).addInlineText cfg s d.annOf =
      (match ({ width := w } : WB).addText .normal [] [] s with
       | .ok w1 => .ok { width := w, wrapping := some w1 }
       | .error e => .error e) := by
    unfold SubR.addInlineText
    simp only [SubR.wsMode, List.getLast?_nil, Option.getD_none, WS.preserve, Bool.not_false, Bool.true_and, Bool.false_and,
      Bool.false_eq_true, if_false, andThen, iterN, SubR.getWrapping, hww, hpad, hov, List.nil_append, Nat.lt_irrefl]
    cases ({ width := w } : WB).addText .normal [] [] s <;> rfl
  simp only [runOps, runOp, stepSimple, RS.onCur, andThen, hsb, hadd]
  cases h1 : ({ width := w } : WB).addText .normal [] [] s with
  | error e => rfl
  | ok w1 =>
    simp only [footTexts, List.zipIdx_nil, List.map_nil, ite_self, List.isEmpty_nil, if_true]
    obtain ⟨m1, _⟩ := addText_marks _ w1 _ _ _ _ (fun _ => Or.inl rfl) h1
    have hwm : marks w1.word = [] := by
      have : w1.marks = [] := by rw [m1]; rfl
      simp only [WB.marks, List.append_eq_nil_iff] at this
      exact this.2
    have hb : (if w1.word.noContent = true then { w1 with word := [] } else w1) = w1 := by
      split
      · rename_i hn
        have := noContent_no_marks w1.word hn hwm
        cases w1; simp_all
      · rfl
    have hfr : (if w1.word.noContent = true then w1.word else []) = [] := by
      split
      · rename_i hn; exact noContent_no_marks w1.word hn hwm
      · rfl
    unfold SubR.intoLines SubR.flushWrapping
    simp only [hb, hfr, andThen]
    cases h2 : w1.finish with
    | error e => rfl
    | ok ls =>
      have := (addLines_plain (ls.map RLine.text) ({ width := w, atBlockEnd := true } : SubR) rfl).1
      simp only [List.nil_append] at this
      simp only [this, Except.map, List.map_map, linesText]
      congr 1


/-- **…and under `max_wrap_width(m)` at the effective width `min m w`** -/
theorem paragraph_is_greedy_maxwrap (cfg : Cfg) (d : Deco) (w m : Nat) (hw : 1 ≤ w) (hm : 1 ≤ m) (hww : cfg.wrapWidth = some m) (hpad : cfg.padBlocks = false)
    (hov : cfg.overflow = false) (s : List Ch) (hpos : ∀ wd ∈ words s, 0 < lwc wd) :
    (renderTree cfg d w (.box {} .block [.text {} s])).map (fun ls => ls.map rlineChars) = greedy (min m w) (words s) := by
  have hg := wrap_eq_greedy_full (min m w) [.text [] [] s] (by omega) (by simpa [partsText, Part.chars] using hpos)
  simp only [partsText, Part.chars, List.append_nil] at hg
  rw [← hg]
  unfold wrapParts
  simp only [WB.runParts, WB.addPart, andThen]
  unfold renderTree
  rw [if_neg (by omega), compile_p_text]
  have hsb : ({ width := w } : SubR).startBlock = .ok { width := w } := by
    simp [SubR.startBlock, SubR.flushWrapping, andThen]
  have hadd : ({ width := w } : SubR).addInlineText cfg s d.annOf =
      (match ({ width := min m w } : WB).addText .normal [] [] s with
       | .ok w1 => .ok { width := w, wrapping := some w1 }
       | .error e => .error e) := by
    unfold SubR.addInlineText
    simp only [SubR.wsMode, List.getLast?_nil, Option.getD_none, WS.preserve, Bool.not_false, Bool.true_and, Bool.false_and,
      Bool.false_eq_true, if_false, andThen, iterN, SubR.getWrapping, hww, hpad, hov, List.nil_append, Nat.lt_irrefl]
    cases ({ width := min m w } : WB).addText .normal [] [] s <;> rfl
  simp only [runOps, runOp, stepSimple, RS.onCur, andThen, hsb, hadd]
  cases h1 : ({ width := min m w } : WB).addText .normal [] [] s with
  | error e => rfl
  | ok w1 =>
    simp only [footTexts, List.zipIdx_nil, List.map_nil, ite_self, List.isEmpty_nil, if_true]
    obtain ⟨m1, _⟩ := addText_marks _ w1 _ _ _ _ (fun _ => Or.inl rfl) h1
    have hwm : marks w1.word = [] := by
      have : w1.marks = [] := by rw [m1]; rfl
      simp only [WB.marks, List.append_eq_nil_iff] at this
      exact this.2
    have hb : (if w1.word.noContent = true then { w1 with word := [] } else w1) = w1 := by
      split
      · rename_i hn
        have := noContent_no_marks w1.word hn hwm
        cases w1; simp_all
      · rfl
    have hfr : (if w1.word.noContent = true then w1.word else []) = [] := by
      split
      · rename_i hn; exact noContent_no_marks w1.word hn hwm
      · rfl
    unfold SubR.intoLines SubR.flushWrapping
    simp only [hb, hfr, andThen]
    cases h2 : w1.finish with
    | error e => rfl
    | ok ls =>
      have := (addLines_plain (ls.map RLine.text) ({ width := w, atBlockEnd := true } : SubR) rfl).1
      simp only [List.nil_append] at this
      simp only [this, Except.map, List.map_map, linesText]
      congr 1


/-- the DOM html5ever builds for `<p>text</p>` -/
def pDoc (s : List Ch) : Node :=
  .doc [.elem "html" true [] [.elem "head" true [] [], .elem "body" true [] [.elem "p" true [] [.text s]]]]

theorem domTree_pDoc (ci : CharInfo) (depth : Nat) (s : List Ch) :
    domTree false false none none ci depth (pDoc s) =
      .ok (.box {} .container [.box {} .container [.box {} .container [.box {} .block [.text {} s]]]]) := by
  rfl

/-- **`<p>text</p>`, the whole pipeline** (no style sheets, default wrapping options): the outcome is the reference's -/
theorem paragraph_document_is_greedy (cfg : Cfg) (d : Deco) (w : Nat) (hw : 1 ≤ w) (hdec : cfg.decorate = false) (hww : cfg.wrapWidth = none)
    (hpad : cfg.padBlocks = false) (hov : cfg.overflow = false) (ci : CharInfo) (depth : Nat) (s : List Ch)
    (hpos : ∀ wd ∈ words s, 0 < lwc wd) :
    (match renderDom cfg d w false none none ci depth (pDoc s) with
     | .lines ls => Except.ok (ls.map rlineChars)
     | .narrow => .error .tooNarrow
     | .panic m => .error (.panic m)
     | .hang m => .error (.hang m)
     | .cssErr => .error (.panic "css")) = greedy w (words s) := by
  rw [renderDom_factor, hdec, domTree_pDoc]
  simp only [renderTree_wrapped]
  rw [← paragraph_is_greedy cfg d w hw hww hpad hov s hpos]
  cases renderTree cfg d w (.box {} .block [.text {} s]) with
  | ok ls => rfl
  | error e => cases e <;> rfl


end H2T.C04
