import H2T.Lemmas.WrapInv
import H2T.Lemmas.Marks

/-! C13, text level: in normal white-space mode a run of whitespace characters has the effect of a single one, and
    which whitespace characters it consists of does not matter — so two texts that differ only in how their
    collapsible whitespace runs are written leave the wrap machine in the same state. -/

namespace H2T

theorem flushWord_wordlen (b b' : WB) (m : WS) (h : b.flushWord m = .ok b') : b'.wordlen = 0 ∧ b'.word.noContent = true := by
  unfold WB.flushWord at h
  split at h
  · rename_i hn; injection h with h; subst h; exact ⟨rfl, hn⟩
  · simp only at h
    split at h
    · simp at h
    · split at h
      · unfold WB.placeFits at h
        split at h
        · cases hs : b.spacetag with
          | none => simp [hs] at h
          | some t => simp only [hs] at h; injection h with h; subst h; exact ⟨rfl, rfl⟩
        · injection h with h; subst h; exact ⟨rfl, rfl⟩
      · cases h1 : ({ b with preWrapped := false } : WB).disposeWs m with
        | error e => simp [h1, andThen] at h
        | ok b1 =>
          simp only [h1, andThen] at h
          cases h2 : b1.startWordLine m with
          | error e => simp [h2] at h
          | ok b4 =>
            simp only [h2] at h
            cases h3 : ({ b4 with word := [], wordlen := 0 } : WB).hardWrap b.word with
            | error e => simp [h3] at h
            | ok b5 =>
              simp only [h3] at h; injection h with h; subst h
              refine ⟨rfl, ?_⟩
              show b5.word.noContent = true
              have hc : b.word.noContent = false := by
                rename_i hn _ _; simpa using hn
              rw [(hardWrap_marks _ b5 b.word rfl hc h3).2.1]; rfl

/-- in normal mode a whitespace character's effect does not depend on which whitespace character it is -/
theorem addChar_ws_indep (b : WB) (mt wt : Tag) (cur : Bool) (c1 c2 : Ch) (h1 : c1.ws = true) (h2 : c2.ws = true) :
    b.addChar .normal mt wt cur c1 = b.addChar .normal mt wt cur c2 := by
  unfold WB.addChar
  simp only [h1, h2, WS.preserve, Bool.true_and, if_true, Bool.false_eq_true, if_false]

/-- the state after a whitespace character (normal mode): no word is pending -/
theorem addChar_ws_wordlen (b b1 : WB) (mt wt : Tag) (cur cur1 : Bool) (c : Ch) (hc : c.ws = true)
    (h : b.addChar .normal mt wt cur c = .ok (b1, cur1)) :
    b1.word.noContent = true ∧ cur1 = cur ∧ ¬ (b1.linelen > 0 ∧ b1.wslen = 0) := by
  unfold WB.addChar at h
  simp only [hc, WS.preserve, Bool.true_and, if_true, Bool.false_eq_true, if_false] at h
  generalize hr : (if (!b.word.noContent) = true then b.flushWord .normal else Except.ok b) = r at h
  cases r with
  | error e => simp at h
  | ok b0 =>
    have hw0 : b0.word.noContent = true := by
      split at hr
      · exact (flushWord_wordlen b b0 _ hr).2
      · rename_i hc0; injection hr with hr; subst hr; simpa using hc0
    simp only at h
    split at h
    · rename_i hcond
      injection h with h; simp only [Prod.mk.injEq] at h; obtain ⟨rfl, rfl⟩ := h
      exact ⟨hw0, rfl, by simp⟩
    · rename_i hcond
      injection h with h; simp only [Prod.mk.injEq] at h; obtain ⟨rfl, rfl⟩ := h
      refine ⟨hw0, rfl, ?_⟩
      simpa using hcond

/-- directly after a whitespace character a second one is a no-op -/
theorem addChar_ws_again (b1 : WB) (mt wt : Tag) (cur : Bool) (c : Ch) (hc : c.ws = true) (hw : b1.word.noContent = true)
    (hcond : ¬ (b1.linelen > 0 ∧ b1.wslen = 0)) : b1.addChar .normal mt wt cur c = .ok (b1, cur) := by
  unfold WB.addChar
  simp only [hc, WS.preserve, Bool.true_and, if_true, Bool.false_eq_true, if_false, hw, Bool.not_true]
  rw [if_neg (by simpa using hcond)]

/-- a run of whitespace acts like its first character -/
theorem addTextGo_ws_run (mt wt : Tag) (rest : List Ch) : ∀ (w : List Ch) (b : WB) (cur : Bool) (c : Ch), c.ws = true → w.all Ch.ws = true →
    b.addTextGo .normal mt wt cur (c :: (w ++ rest)) = b.addTextGo .normal mt wt cur (c :: rest) := by
  intro w
  induction w with
  | nil => intro b cur c _ _; rfl
  | cons c2 w ih =>
    intro b cur c hc hw
    simp only [List.all_cons, Bool.and_eq_true] at hw
    have hc2 : c2.ws = true := hw.1
    -- drop `c2`: after `c` it is a no-op
    have step : b.addTextGo .normal mt wt cur (c :: c2 :: (w ++ rest)) = b.addTextGo .normal mt wt cur (c :: (w ++ rest)) := by
      simp only [WB.addTextGo]
      cases h1 : b.addChar .normal mt wt cur c with
      | error e => rfl
      | ok r =>
        obtain ⟨b1, cur1⟩ := r
        obtain ⟨a1, a2, a3⟩ := addChar_ws_wordlen b b1 mt wt cur cur1 c hc h1
        simp only
        rw [addChar_ws_again b1 mt wt cur1 c2 hc2 a1 a3]
    show b.addTextGo .normal mt wt cur (c :: c2 :: (w ++ rest)) = _
    rw [step]
    exact ih b cur c hc hw.2

/-- **whitespace runs collapse and their spelling does not matter**: replacing a non-empty whitespace run by another
    non-empty whitespace run anywhere in a text leaves the block in the same state (normal mode, any tags) -/
theorem addTextGo_ws_runs (mt wt : Tag) (w1 w2 rest : List Ch) (h1 : w1 ≠ []) (h2 : w2 ≠ []) (a1 : w1.all Ch.ws = true)
    (a2 : w2.all Ch.ws = true) : ∀ (pre : List Ch) (b : WB) (cur : Bool),
    b.addTextGo .normal mt wt cur (pre ++ w1 ++ rest) = b.addTextGo .normal mt wt cur (pre ++ w2 ++ rest) := by
  intro pre
  induction pre with
  | nil =>
    intro b cur
    cases w1 with
    | nil => exact absurd rfl h1
    | cons c1 t1 =>
      cases w2 with
      | nil => exact absurd rfl h2
      | cons c2 t2 =>
        simp only [List.all_cons, Bool.and_eq_true] at a1 a2
        simp only [List.nil_append, List.cons_append]
        rw [addTextGo_ws_run mt wt rest t1 b cur c1 a1.1 a1.2, addTextGo_ws_run mt wt rest t2 b cur c2 a2.1 a2.2]
        simp only [WB.addTextGo]
        rw [addChar_ws_indep b mt wt cur c1 c2 a1.1 a2.1]
  | cons p pre ih =>
    intro b cur
    simp only [List.cons_append, WB.addTextGo]
    cases b.addChar .normal mt wt cur p with
    | error e => rfl
    | ok r => exact ih r.1 r.2

/-- the same for a whole `add_text` call -/
theorem addText_ws_runs (b : WB) (mt wt : Tag) (pre w1 w2 rest : List Ch) (h1 : w1 ≠ []) (h2 : w2 ≠ []) (a1 : w1.all Ch.ws = true)
    (a2 : w2.all Ch.ws = true) :
    b.addText .normal mt wt (pre ++ w1 ++ rest) = b.addText .normal mt wt (pre ++ w2 ++ rest) := by
  unfold WB.addText
  have hz : b.zeroGuard (pre ++ w1 ++ rest) = b.zeroGuard (pre ++ w2 ++ rest) := by
    unfold WB.zeroGuard
    have e1 : (pre ++ w1 ++ rest).isEmpty = false := by cases pre <;> cases w1 <;> simp_all
    have e2 : (pre ++ w2 ++ rest).isEmpty = false := by cases pre <;> cases w2 <;> simp_all
    rw [e1, e2]
  rw [hz]
  cases b.zeroGuard (pre ++ w2 ++ rest) with
  | error e => rfl
  | ok b0 => simp only [andThen]; exact addTextGo_ws_runs mt wt w1 w2 rest h1 h2 a1 a2 pre b0 _

end H2T
