import H2T.Lemmas.Balance
import H2T.Lemmas.TagRich
import H2T.Lemmas.TagTreePre
import H2T.Lemmas.TagTreeTable
import H2T.Lemmas.DomFactor

/-! # C09 — rich annotations mirror element nesting exactly

The renderer keeps an annotation stack; an annotating element pushes its annotation before its children and
pops it afterwards, and every piece of text is tagged with the stack as it stands when the text is added.
Status: **partial** — proved: adding text, starting blocks, flushing and new lines never change the stack; an
`open … close` bracket restores it exactly (so nothing leaks past the end of an element); text is tagged with
exactly the current stack (plus the preformat annotation inside `pre`); a sub-renderer starts with a copy of its
parent's stack.  The `Table` arm now unwinds its style (fix 3cb7874), and **`compile` is proved bracketed for every
render node** (`no_annotation_leaks`, from `Balance.compile_frame`): whatever happens inside an element — wrapping,
nested blocks, sub-renderers, tables with their rows and cells, errors aside — its program hands the annotation stack,
the `pre` depth, the white-space stack and the strikeout depth back exactly as it found them.  **The document-level
statement is proved for every render tree without tables and without `<pre>`** (`tags_are_annotating_ancestors`,
`rich_tags_are_annotating_ancestors`): the characters of the rendered lines, with their tag vectors and in order, are
those of the specification `nodeT` — each character of a text node tagged with the annotations of its annotating
ancestors, outermost first — for every width, wrapping and block nesting (compared on a content alphabet that the block
prefixes avoid, since a prefix is repeated on every line).  **`<pre>` is covered too** (`tags_are_annotating_ancestors_pre`):
inside a `<pre>` element every character additionally carries the `Preformat` annotation on top of the stack; whether its
flag reads `false` (first piece of a line) or `true` (continuation after a hard wrap) depends on wrapping, so the tag
vectors are compared under the view `erasePre` that identifies the two.  **Tables** (`no_tagged_character_invented`):
cells are laid out side by side, so the order of the output is not the document's; what is proved for *every* render tree
is that no tagged character is invented — each (character, tag vector) pair occurs in the output at most as often as in
the specification `nodeTT`, which walks tables too (table, row and cell colours on the stack; a fresh strikeout count and
`pre` depth per cell); together with C03's conservation of the characters this fixes the tag of every unique token.  The
value of the continuation flag and equality for tables are decided by correspondence and the per-character oracle (C12
proves the flag for lines that fit). -/

namespace H2T.C09

/-- **no annotation leaks past the end of its element**: the program of any render node — any kind, any depth, tables
    included — leaves the annotation stack (and the `pre` depth, white-space stack, strikeout depth and width) of the
    current sub-renderer exactly as it found them, for every configuration and decorator -/
theorem no_annotation_leaks (cfg : Cfg) (d : Deco) (n : RNode) (t t' : RS)
    (h : runOps SubR.widthMinus cfg d t (compile cfg d n) = .ok t') :
    t'.cur.annStack = t.cur.annStack ∧ t'.cur.preDepth = t.cur.preDepth ∧ t'.cur.wsStack = t.cur.wsStack ∧
    t'.cur.filterDepth = t.cur.filterDepth := by
  have := compile_frame SubR.widthMinus cfg d n t t' h
  simp only [SubR.ff, id, Prod.mk.injEq] at this
  exact ⟨this.1, this.2.1, this.2.2.1, this.2.2.2.1⟩

/-- the same for a list of siblings: after any prefix of an element's children the stack is the one the children started
    with — so every child, and every piece of text directly inside the element, sees exactly the element's stack -/
theorem siblings_see_same_stack (cfg : Cfg) (d : Deco) (kids : List RNode) (t t' : RS)
    (h : runOps SubR.widthMinus cfg d t (compileList cfg d kids) = .ok t') : t'.cur.annStack = t.cur.annStack := by
  have := compileList_frame SubR.widthMinus cfg d kids t t' h
  simp only [SubR.ff, id, Prod.mk.injEq] at this
  exact this.1

theorem addLine_ann (s : SubR) (l : RLine) : (s.addLine l).annStack = s.annStack := by
  cases l with
  | text tl => simp only [SubR.addLine]; split <;> rfl
  | rule b t => rfl

theorem addLines_ann (ls : List RLine) : ∀ s : SubR, (s.addLines ls).annStack = s.annStack := by
  induction ls with
  | nil => intro s; rfl
  | cons l ls ih => intro s; simp only [SubR.addLines, List.foldl_cons] at ih ⊢; rw [ih, addLine_ann]

theorem flushWrapping_ann (s s' : SubR) (h : s.flushWrapping = .ok s') : s'.annStack = s.annStack := by
  unfold SubR.flushWrapping at h
  cases hw : s.wrapping with
  | none => simp only [hw] at h; injection h with h; subst h; rfl
  | some w =>
    simp only [hw] at h
    generalize (if w.word.noContent = true then { w with word := [] } else w) = w' at h
    cases hf : w'.finish with
    | error e => simp [hf, andThen] at h
    | ok ls =>
      simp only [hf, andThen] at h
      injection h with h; subst h
      simp [addLines_ann]

theorem addEmptyLine_ann (s s' : SubR) (h : s.addEmptyLine = .ok s') : s'.annStack = s.annStack := by
  unfold SubR.addEmptyLine at h
  cases h1 : s.flushWrapping with
  | error e => simp [h1, andThen] at h
  | ok s1 =>
    simp only [h1, andThen] at h; injection h with h; subst h
    simp [addLine_ann, flushWrapping_ann s s1 h1]

theorem startBlock_ann (s s' : SubR) (h : s.startBlock = .ok s') : s'.annStack = s.annStack := by
  unfold SubR.startBlock at h
  cases h1 : s.flushWrapping with
  | error e => simp [h1, andThen] at h
  | ok s1 =>
    simp only [h1, andThen] at h
    have e1 := flushWrapping_ann s s1 h1
    generalize hr : (if s1.lines.any RLine.hasContent = true then s1.addEmptyLine else Except.ok s1) = r at h
    cases r with
    | error e => simp at h
    | ok s2 =>
      simp only at h; injection h with h; subst h
      have e2 : s2.annStack = s1.annStack := by
        split at hr
        · exact addEmptyLine_ann s1 s2 hr
        · injection hr with hr; subst hr; rfl
      simp [e2, e1]

/-- adding text never changes the annotation stack -/
theorem addInlineText_ann (s s' : SubR) (cfg : Cfg) (x : List Ch) (f : Ann → Ann)
    (h : s.addInlineText cfg x f = .ok s') : s'.annStack = s.annStack := by
  unfold SubR.addInlineText at h
  split at h
  · injection h with h; subst h; rfl
  · generalize hs0 : (if s.atBlockEnd = true then s.startBlock else Except.ok s) = r0 at h
    cases r0 with
    | error e => simp [andThen] at h
    | ok s0 =>
      have e0 : s0.annStack = s.annStack := by
        split at hs0
        · exact startBlock_ann s s0 hs0
        · injection hs0 with hs0; subst hs0; rfl
      simp only [andThen] at h
      generalize (s0.getWrapping cfg).addText s0.wsMode _ _ (iterN strikeFilter s0.filterDepth x) = r at h
      cases r with
      | error e => simp at h
      | ok w' => simp only at h; injection h with h; subst h; exact e0

/-- **No leak.**  An element's bracket — push the annotation and emit the start affix, …, emit the end affix
    and pop — leaves the stack exactly as it found it, whatever text was added in between as long as the
    operations in between keep the stack (which every simple text/block operation does, see above). -/
theorem bracket_restores (cfg : Cfg) (d : Deco) (t t1 t2 t3 : RS) (a : Ann) (x y : List Ch) (strike : Bool)
    (h1 : stepSimple cfg d t (.startAnn a x strike) = .ok t1)
    (hmid : t2.cur.annStack = t1.cur.annStack)
    (h3 : stepSimple cfg d t2 (.endAnn y strike) = .ok t3) :
    t1.cur.annStack = t.cur.annStack ++ [d.annOf a] ∧ t3.cur.annStack = t.cur.annStack := by
  have e1 : t1.cur.annStack = t.cur.annStack ++ [d.annOf a] := by
    simp only [stepSimple, RS.onCur] at h1
    generalize hq : ({ t.cur with annStack := t.cur.annStack ++ [d.annOf a] } : SubR).addInlineText cfg x d.annOf = q at h1
    cases q with
    | error e => simp [andThen] at h1
    | ok s1 =>
      simp only [andThen] at h1; injection h1 with h1; subst h1
      have := addInlineText_ann _ s1 cfg x d.annOf hq
      split <;> simpa using this
  refine ⟨e1, ?_⟩
  simp only [stepSimple, RS.onCur] at h3
  generalize hs0 : (if (strike && cfg.unicodeStrike) = true then { t2.cur with filterDepth := t2.cur.filterDepth - 1 } else t2.cur) = s0 at h3
  have e0 : s0.annStack = t2.cur.annStack := by rw [← hs0]; split <;> rfl
  generalize hq : s0.addInlineText cfg y d.annOf = q at h3
  cases q with
  | error e => simp [andThen] at h3
  | ok s2 =>
    simp only [andThen] at h3; injection h3 with h3; subst h3
    have := addInlineText_ann s0 s2 cfg y d.annOf hq
    simp [this, e0, hmid, e1]

/-- text is tagged with exactly the current stack (outermost first), plus the preformat annotation inside `pre` -/
theorem text_tag_is_stack (s : SubR) (cfg : Cfg) (x : List Ch) (f : Ann → Ann) (hb : s.atBlockEnd = false)
    (hp : s.preDepth = 0) :
    s.addInlineText cfg x f =
      andThen ((s.getWrapping cfg).addText s.wsMode s.annStack s.annStack (iterN strikeFilter s.filterDepth x))
        fun w' => .ok { s with wrapping := some w' } := by
  simp [SubR.addInlineText, hb, hp, andThen]

/-- a sub-renderer (list item, quote, heading, table cell) starts with a copy of its parent's stack: the model's
    `sub` and `cell` operations create `{ width := …, annStack := parent.annStack }` -/
theorem colour_push_pop (s : SubR) (a : Ann) : ({ s with annStack := s.annStack ++ [a] } : SubR).annStack.dropLast = s.annStack := by
  simp

/-! ## whole renderings: tag vector = annotating ancestors -/

/-- **every visible character carries exactly the annotations of its annotating ancestors, outermost first**: for every
    render tree without tables and without `<pre>` elements, every width, every configuration with footnotes off, every
    decorator and every content alphabet `P` that the decorator's block prefixes avoid: the `P`-characters of the rendered
    lines — with their tag vectors, in order — are exactly those of the specification `nodeT`, which walks the tree and
    tags each character of a text node (and each decorator affix) with the annotations of the elements enclosing it.
    Wrapping, block nesting, list/quote/heading sub-renderers and prefixes change neither a tag nor the order. -/
theorem tags_are_annotating_ancestors (P : Ch → Bool) (cfg : Cfg) (d : Deco) (w : Nat) (tree : RNode) (ls : List RLine)
    (hfn : cfg.footnotes = false) (hd : DecoAvoids P d) (ht : plainTree tree = true) (h : renderTree cfg d w tree = .ok ls) :
    pf P (ls.flatMap trink) = pf P (nodeT cfg d [] 0 tree) :=
  renderTree_tags P cfg d w tree ls hfn hd ht h

/-- the same for the rich decorator (the one `from_read_rich`/`lines_from_read` use) and for the plain one, on every
    character other than `#`, `>`, `*`, `-`, `.` and the digits (what `# `, `> `, `* `, `12. ` are made of) -/
theorem rich_tags_are_annotating_ancestors (cfg : Cfg) (w : Nat) (tree : RNode) (ls : List RLine)
    (hfn : cfg.footnotes = false) (ht : plainTree tree = true) (h : renderTree cfg Deco.rich w tree = .ok ls) :
    pf richAlpha (ls.flatMap trink) = pf richAlpha (nodeT cfg Deco.rich [] 0 tree) :=
  renderTree_tags richAlpha cfg Deco.rich w tree ls hfn rich_avoids ht h

/-- **`<pre>` included**: for every render tree without tables — `<pre>` elements at any depth, with inline annotating
    elements inside them — every width, configuration (footnotes off), decorator and alphabet the prefixes avoid, and every
    view `ν` of tag vectors that identifies `Preformat(true)` with `Preformat(false)`: the viewed tagged characters of the
    rendered lines are exactly those of the specification `nodeTN`, which adds the preformat annotation on top of the
    ancestors' annotations for text below a `<pre>` element (within the same sub-renderer) -/
theorem tags_are_annotating_ancestors_pre (ν : Tag → Tag) (P : Ch → Bool) (cfg : Cfg) (d : Deco) (hν : PreView ν d) (w : Nat)
    (tree : RNode) (ls : List RLine) (hfn : cfg.footnotes = false) (hd : DecoAvoids P d) (ht : noTable tree = true)
    (h : renderTree cfg d w tree = .ok ls) : vw ν P (ls.flatMap trink) = pf P (nodeTN ν cfg d [] 0 0 tree) :=
  renderTree_tagsN ν P cfg d hν w tree ls hfn hd ht h

/-- …for rich output, with the view that erases the continuation flag -/
theorem rich_tags_are_annotating_ancestors_pre (cfg : Cfg) (w : Nat) (tree : RNode) (ls : List RLine) (hfn : cfg.footnotes = false)
    (ht : noTable tree = true) (h : renderTree cfg Deco.rich w tree = .ok ls) :
    vw erasePre richAlpha (ls.flatMap trink) = pf richAlpha (nodeTN erasePre cfg Deco.rich [] 0 0 tree) :=
  renderTree_tagsN erasePre richAlpha cfg Deco.rich erasePre_rich w tree ls hfn rich_avoids ht h

/-- what the specification says about a text node at `pre` depth `pre`: the ancestors' annotations, the node's colours,
    and the preformat annotation when some enclosing element of the same sub-renderer is a `<pre>` -/
theorem spec_text_pre (ν : Tag → Tag) (cfg : Cfg) (d : Deco) (st : Tag) (dep pre : Nat) (sty : Style) (s : List Ch) :
    nodeTN ν cfg d st dep pre (.text sty s) =
      (keep (iterN strikeFilter dep s)).map fun c =>
        ⟨c, ν (if pre + (if sty.pre then 1 else 0) > 0 then st ++ styleTags d sty ++ [d.annOf (Ann.pre false)] else st ++ styleTags d sty)⟩ := rfl

/-! non-vacuity: a `<pre>` block holding a long word, a blank and an emphasised word at width 5 (hard wraps: the rendered
    cells carry `Preformat(true)` from the sixth character on), followed by a quoted paragraph -/
def exPre : RNode := .box {} .container [
  .box {pre := true, ws := some .pre} .block [.text {} (strCh "abcdefgh ij"), .box {} .em [.text {} (strCh "klmnopq")]],
  .box {} .quote [.box {} .block [.text {} (strCh "rs")]]]
example : noTable exPre = true := by decide
example : ((renderTree {} Deco.rich 5 exPre).toOption.map fun ls => vw erasePre richAlpha (ls.flatMap trink)) =
    some (pf richAlpha (nodeTN erasePre {} Deco.rich [] 0 0 exPre)) := by decide +kernel
example : ((renderTree {} Deco.rich 5 exPre).toOption.map fun ls => ((ls.flatMap trink).filter fun c => c.tag.contains (Ann.pre true)).length) = some 12 := by
  decide +kernel

/-! ## tables -/

/-- **no tagged character is invented — every render tree, tables included**: for every viewed cell `y` — a character that
    is not box-drawing and not one the block prefixes are made of, with a tag vector — every decorator, width and
    configuration (footnotes off): the rendered lines hold `y` at most as often as the specification `nodeTT`, in which
    each character of a text node carries the annotations of its annotating ancestors, outermost first (the table's, the
    row's and the cell's colours included).  Nested tables, stacked rows, border collapsing and padding add box-drawing
    characters and blanks only; cells of zero width are dropped (which is why this is `≤`).  For a regular table
    `C03.regular_table_conserves_text` gives equality of the character counts; since the count of a character is the sum
    over its tag vectors and every summand is bounded by this theorem, each summand is then equal: in a regular table every
    tagged character of the specification is in the output exactly as often. -/
theorem no_tagged_character_invented (ν : Tag → Tag) (P : Ch → Bool) (y : Cell) (hyb : isBox y.ch = false) (hyP : P y.ch = true)
    (cfg : Cfg) (d : Deco) (hν : PreView ν d) (w : Nat) (tree : RNode) (ls : List RLine) (hfn : cfg.footnotes = false)
    (hd : DecoAvoids P d) (h : renderTree cfg d w tree = .ok ls) :
    ((ls.flatMap trink).map (retag ν)).count y ≤ (nodeTT ν cfg d [] 0 0 tree).count y :=
  renderTree_tagsT ν P y hyb hyP cfg d hν w tree ls hfn hd h

/-- …for rich output -/
theorem rich_no_tagged_character_invented (y : Cell) (hyb : isBox y.ch = false) (hyP : richAlpha y.ch = true) (cfg : Cfg) (w : Nat)
    (tree : RNode) (ls : List RLine) (hfn : cfg.footnotes = false) (h : renderTree cfg Deco.rich w tree = .ok ls) :
    ((ls.flatMap trink).map (retag erasePre)).count y ≤ (nodeTT erasePre cfg Deco.rich [] 0 0 tree).count y :=
  renderTree_tagsT erasePre richAlpha y hyb hyP cfg Deco.rich erasePre_rich w tree ls hfn rich_avoids h

/-- **whole pipeline, rich output**: whatever the document (any DOM the HTML parser delivers) and the agent, user and
    document style sheets — a `.lines` outcome holds no tagged character that the specification of the render tree the
    front end built does not hold at least as often -/
theorem rich_no_tagged_character_invented_pipeline (y : Cell) (hyb : isBox y.ch = false) (hyP : richAlpha y.ch = true) (cfg : Cfg) (w : Nat)
    (useDoc : Bool) (agentCss userCss : Option (List Char)) (ci : CharInfo) (depth : Nat) (dom : Node) (ls : List RLine)
    (hfn : cfg.footnotes = false) (h : renderDom cfg Deco.rich w useDoc agentCss userCss ci depth dom = .lines ls) :
    ∃ tree, domTree cfg.decorate useDoc agentCss userCss ci depth dom = .ok tree ∧
      ((ls.flatMap trink).map (retag erasePre)).count y ≤ (nodeTT erasePre cfg Deco.rich [] 0 0 tree).count y := by
  obtain ⟨tree, hdt, _, hr⟩ := renderDom_lines cfg Deco.rich w useDoc agentCss userCss ci depth dom ls h
  exact ⟨tree, hdt, rich_no_tagged_character_invented y hyb hyP cfg w tree ls hfn hr⟩

/-- what the specification says about a table: rows in order, each cell's children walked with the table's, the row's and
    the cell's colours appended to the stack -/
theorem spec_table (ν : Tag → Tag) (cfg : Cfg) (d : Deco) (st : Tag) (dep pre : Nat) (sty rsty csty : Style) (kids : List RNode) (n : Nat) :
    nodeTT ν cfg d st dep pre (.table sty [.row rsty [.cell csty 1 kids]] n) =
      listTT ν cfg d (st ++ styleTags d sty ++ styleTags d rsty ++ styleTags d csty) 0 (preIn csty 0) kids := by
  simp [nodeTT, rowsTT, cellsTT]

/-! non-vacuity: a coloured table with a coloured row, an emphasised cell, a coloured cell and a spanning row at width 12:
    the tagged characters of the output are those of the specification (here with equality) -/
def exTable : RNode := .box {} .container [
  .table {fg := some ⟨9,9,9⟩} [.row {bg := some ⟨1,1,1⟩} [.cell {} 1 [.box {} .em [.text {} (strCh "ab")]], .cell {fg := some ⟨2,2,2⟩} 1 [.text {} (strCh "cd ef")]],
              .row {} [.cell {} 2 [.box {} .strong [.text {} (strCh "gh")]]]] 2,
  .text {} (strCh "zz")]
example : ((renderTree {} Deco.rich 12 exTable).toOption.map fun ls =>
      ((ls.flatMap trink).filter (fun c => richAlpha c.ch && !isBox c.ch)).map fun c => (c.ch.cp, c.tag)) =
    some ((nodeTT erasePre {} Deco.rich [] 0 0 exTable).map fun c => (c.ch.cp, c.tag)) := by decide +kernel
example : ((nodeTT erasePre {} Deco.rich [] 0 0 exTable).map fun c => (c.ch.cp, c.tag.length)) =
    [(97, 3), (98, 3), (99, 3), (100, 3), (101, 3), (102, 3), (103, 2), (104, 2), (122, 0), (122, 0)] := by decide +kernel

/-- with whitespace block prefixes (custom decorators; `dd` indentation) nothing needs to be filtered: *all* visible cells
    of the output are those of the program, in order, with their tags -/
theorem tagged_cells_are_the_programs (cfg : Cfg) (d : Deco) (w : Nat) (tree : RNode) (ls : List RLine) (hfn : cfg.footnotes = false)
    (hs : tagOkOps (compile cfg d tree) = true) (h : renderTree cfg d w tree = .ok ls) :
    ls.flatMap trink = (opsTink cfg d [] 0 (compile cfg d tree)).1 :=
  renderTree_tink cfg d w tree ls hfn hs h

/-- what the specification says about a text node: its visible characters, each tagged with the ancestors' annotations
    followed by the node's own colours -/
theorem spec_text (cfg : Cfg) (d : Deco) (st : Tag) (dep : Nat) (sty : Style) (s : List Ch) :
    nodeT cfg d st dep (.text sty s) = (keep (iterN strikeFilter dep s)).map fun c => ⟨c, st ++ styleTags d sty⟩ := rfl

/-- …and about an emphasis element: its children are walked with the emphasis annotation appended -/
theorem spec_em (cfg : Cfg) (d : Deco) (st : Tag) (dep : Nat) (sty : Style) (kids : List RNode) :
    nodeT cfg d st dep (.box sty .em kids) =
      tcells (st ++ styleTags d sty ++ [d.annOf Ann.em]) dep d.emStart ++ listT cfg d (st ++ styleTags d sty ++ [d.annOf Ann.em]) dep kids ++
        tcells (st ++ styleTags d sty ++ [d.annOf Ann.em]) dep d.emEnd := by
  simp [nodeT]

/-! non-vacuity: a list item with emphasis and a link, and a quoted coloured strong/strikeout run, at width 7 (every
    block wraps): hypotheses hold and both sides are the fourteen tagged characters -/
def exTree : RNode := .box {} .container [
  .box {} .ul [.box {} .li [.box {} .em [.text {} (strCh "ab cd"), .box {} (.link (strCh "u")) [.text {} (strCh "ef gh")]]],
               .box {} .quote [.box {} .block [.box {fg := some ⟨1,2,3⟩} .strong [.text {} (strCh "ij"), .box {} .strike [.text {} (strCh "kl")]]]]]]
example : plainTree exTree = true := by decide
example : ((renderTree {} Deco.rich 7 exTree).toOption.map fun ls => pf richAlpha (ls.flatMap trink)) = some (nodeT {} Deco.rich [] 0 exTree) := by
  decide +kernel
example : ((nodeT {} Deco.rich [] 0 exTree).map fun c => (c.ch.cp, c.tag.length)) =
    [(97, 1), (98, 1), (99, 1), (100, 1), (101, 2), (102, 2), (103, 2), (104, 2), (105, 2), (106, 2), (107, 3), (822, 3), (108, 3), (822, 3)] := by
  decide +kernel

/-! non-vacuity: `<em>a<strong>b</strong>c</em>d` in rich mode: tags [E], [E,S], [E], [] -/
example :
    let tree : RNode := .box {} .block [.box {} .em [.text {} (strCh "a"), .box {} .strong [.text {} (strCh "b")], .text {} (strCh "c")], .text {} (strCh "d")]
    ((renderTree {} Deco.rich 20 tree).toOption.map fun ls =>
        ls.map fun l => match l with | .text tl => tl.filterMap (fun e => match e with | .cell c => some (c.ch.cp, c.tag) | _ => none) | _ => [])
      = some [[(97, [Ann.em]), (98, [Ann.em, Ann.strong]), (99, [Ann.em]), (100, [])]] := by decide +kernel

end H2T.C09
