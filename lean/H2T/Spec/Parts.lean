import H2T.Wrap

/-! What a paragraph is fed to the wrap machine as: text parts with arbitrary tags (one `add_text` call each — the
    caller splits the text wherever an inline element starts or ends) and fragment markers between them. -/

namespace H2T

inductive Part
  /-- `mainTag`/`wrapTag` are the two tags `add_text` receives; in normal mode only one of them is used -/
  | text (mainTag wrapTag : Tag) (cs : List Ch)
  | frag (name : List Ch)
deriving Repr

def Part.chars : Part → List Ch
  | .text _ _ cs => cs
  | .frag _ => []

def partsText : List Part → List Ch
  | [] => []
  | p :: ps => p.chars ++ partsText ps

def WB.addPart (b : WB) : Part → Except Err WB
  | .text mt wt cs => b.addText .normal mt wt cs
  | .frag n => .ok (b.addElement (.frag n))

def WB.runParts (b : WB) : List Part → Except Err WB
  | [] => .ok b
  | p :: ps => andThen (b.addPart p) fun b' => b'.runParts ps

end H2T
