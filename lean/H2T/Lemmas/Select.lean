import H2T.Css.Cascade

/-! C20 calibration: `do_matches` decides a declarative selector semantics. -/

namespace H2T

namespace Css

/-- `:nth-child(an+b)`: the 1-based index is a·n + b for some n ≥ 0 -/
def NthOk (a b : Int) (idx : Nat) : Prop := ∃ n : Nat, (idx : Int) = a * n + b

/-- Declarative semantics of a (right-to-left) component list on a node given with its ancestor chain. -/
inductive Matches : List SelComp → List Frame → Prop
  | nil (chain) : Matches [] chain
  | cls (c rest node up) : node.isElem = true → hasClass node c = true → Matches rest (node :: up) →
      Matches (.cls c :: rest) (node :: up)
  | hash (h rest node up) : node.isElem = true → node.attrs.any (fun a => a.1 = "id" && chStr a.2 = h) = true →
      Matches rest (node :: up) → Matches (.hash h :: rest) (node :: up)
  | elem (n rest node up) : node.isElem = true → node.name = n → Matches rest (node :: up) →
      Matches (.elem n :: rest) (node :: up)
  | star (rest node up) : node.isElem = true → Matches rest (node :: up) → Matches (.star :: rest) (node :: up)
  | child (rest node up) : up ≠ [] → Matches rest up → Matches (.child :: rest) (node :: up)
  /-- descendant: some proper ancestor (a non-empty suffix of the chain above the node) matches the rest -/
  | desc (rest node up) (k : Nat) : k < up.length → Matches rest (up.drop k) →
      Matches (.desc :: rest) (node :: up)
  | nth (a b rest node up) : up ≠ [] → node.elemIdx ≠ 0 → NthOk a b node.elemIdx → Matches rest (node :: up) →
      Matches (.nth a b :: rest) (node :: up)

/-- the integer fact behind nth-child, for Rust's truncating division and remainder -/
theorem nth_arith (a b : Int) (idx : Nat) (ha : a ≠ 0) :
    (Int.tmod ((idx : Int) - b) a = 0 ∧ Int.tdiv ((idx : Int) - b) a ≥ 0) ↔ NthOk a b idx := by
  constructor
  · rintro ⟨hm, hd⟩
    have hdvd : a ∣ ((idx : Int) - b) := Int.dvd_of_tmod_eq_zero hm
    obtain ⟨q, hq⟩ := hdvd
    have hq' : Int.tdiv ((idx : Int) - b) a = q := by rw [hq]; exact Int.mul_tdiv_cancel_left _ ha
    rw [hq'] at hd
    refine ⟨q.toNat, ?_⟩
    have : (q.toNat : Int) = q := Int.toNat_of_nonneg hd
    rw [this]; omega
  · rintro ⟨n, hn⟩
    have hx : (idx : Int) - b = a * n := by omega
    rw [hx]
    refine ⟨Int.mul_tmod_right _ _, ?_⟩
    rw [Int.mul_tdiv_cancel_left _ ha]
    exact Int.natCast_nonneg n

theorem nth_arith_zero (b : Int) (idx : Nat) : ((idx : Int) - b = 0) ↔ NthOk 0 b idx := by
  constructor
  · intro h; exact ⟨0, by omega⟩
  · rintro ⟨n, hn⟩; simp at hn; omega

theorem drop_suffix_mem {α : Type} (l : List α) (k : Nat) (x : α) (h : x ∈ l.drop k) : x ∈ l :=
  List.mem_of_mem_drop h

/-- soundness and completeness of the matcher for enough fuel -/
theorem doMatches_iff : ∀ (fuel : Nat) (comps : List SelComp) (chain : List Frame),
    comps.length + chain.length < fuel →
    (doMatches comps chain fuel = .yes ↔ Matches comps chain) ∧ doMatches comps chain fuel ≠ .panic := by
  intro fuel
  induction fuel with
  | zero => intro comps chain h; omega
  | succ fuel ih =>
    intro comps chain hf
    match comps, chain with
    | [], chain => simp [doMatches]; exact Matches.nil chain
    | c :: rest, [] =>
      simp only [doMatches]
      refine ⟨⟨by simp, fun h => by cases h⟩, by simp⟩
    | c :: rest, node :: up =>
      have hsame := ih rest (node :: up) (by simp at hf ⊢; omega)
      cases c with
      | cls cl =>
        simp only [doMatches]
        by_cases h1 : (node.isElem && hasClass node cl) = true
        · simp only [h1, if_true]
          refine ⟨⟨fun h => ?_, fun h => ?_⟩, hsame.2⟩
          · simp at h1; exact Matches.cls _ _ _ _ h1.1 h1.2 (hsame.1.mp h)
          · cases h with | cls _ _ _ _ _ _ hm => exact hsame.1.mpr hm
        · simp only [h1]
          refine ⟨⟨by simp, fun h => ?_⟩, by simp⟩
          cases h with | cls _ _ _ _ e1 e2 _ => simp [e1, e2] at h1
      | hash hs =>
        simp only [doMatches]
        by_cases h1 : (node.isElem && node.attrs.any (fun a => a.1 = "id" && chStr a.2 = hs)) = true
        · simp only [h1, if_true]
          refine ⟨⟨fun h => ?_, fun h => ?_⟩, hsame.2⟩
          · simp only [Bool.and_eq_true] at h1; exact Matches.hash _ _ _ _ h1.1 h1.2 (hsame.1.mp h)
          · cases h with | hash _ _ _ _ _ _ hm => exact hsame.1.mpr hm
        · simp only [h1]
          refine ⟨⟨by simp, fun h => ?_⟩, by simp⟩
          cases h with | hash _ _ _ _ e1 e2 _ => simp only [e1, e2, Bool.and_self, not_true_eq_false] at h1
      | elem n =>
        simp only [doMatches]
        by_cases h1 : (node.isElem && node.name = n) = true
        · simp only [h1, if_true]
          refine ⟨⟨fun h => ?_, fun h => ?_⟩, hsame.2⟩
          · simp at h1; exact Matches.elem _ _ _ _ h1.1 h1.2 (hsame.1.mp h)
          · cases h with | elem _ _ _ _ _ _ hm => exact hsame.1.mpr hm
        · simp only [h1]
          refine ⟨⟨by simp, fun h => ?_⟩, by simp⟩
          cases h with | elem _ _ _ _ e1 e2 _ => simp [e1, e2] at h1
      | star =>
        simp only [doMatches]
        by_cases h1 : node.isElem = true
        · simp only [h1, if_true]
          refine ⟨⟨fun h => Matches.star _ _ _ h1 (hsame.1.mp h), fun h => ?_⟩, hsame.2⟩
          cases h with | star _ _ _ _ hm => exact hsame.1.mpr hm
        · simp only [h1]
          refine ⟨⟨by simp, fun h => ?_⟩, by simp⟩
          cases h with | star _ _ _ e _ => exact (h1 e).elim
      | child =>
        simp only [doMatches]
        by_cases h1 : up.isEmpty = true
        · simp only [h1, if_true]
          refine ⟨⟨by simp, fun h => ?_⟩, by simp⟩
          cases h with | child _ _ _ e _ => simp at h1; exact (e h1).elim
        · simp only [h1]
          have hupm := ih rest up (by simp at hf ⊢; omega)
          refine ⟨⟨fun h => Matches.child _ _ _ (by simpa using h1) (hupm.1.mp h), fun h => ?_⟩, hupm.2⟩
          cases h with | child _ _ _ _ hm => exact hupm.1.mpr hm
      | desc =>
        simp only [doMatches]
        by_cases h1 : up.isEmpty = true
        · simp only [h1, if_true]
          refine ⟨⟨by simp, fun h => ?_⟩, by simp⟩
          cases h with | desc _ _ _ k hk _ => simp at h1; subst h1; simp at hk
        · simp only [h1]
          have hne : up ≠ [] := by simpa using h1
          obtain ⟨p, gp, rfl⟩ := List.exists_cons_of_ne_nil hne
          have hupm := ih rest (p :: gp) (by simp at hf ⊢; omega)
          have hrec := ih (.desc :: rest) (p :: gp) (by simp at hf ⊢; omega)
          cases hdm : doMatches rest (p :: gp) fuel with
          | yes =>
            simp only [hdm]
            refine ⟨⟨fun _ => Matches.desc _ _ _ 0 (by simp) (by simpa using hupm.1.mp hdm), fun _ => rfl⟩, by simp⟩
          | panic => exact absurd hdm hupm.2
          | no =>
            simp only [hdm]
            refine ⟨⟨fun h => ?_, fun h => ?_⟩, hrec.2⟩
            · -- the recursive call matched further up: shift the witness by one
              cases hrec.1.mp h with
              | desc _ _ _ k hk hm => exact Matches.desc _ _ _ (k + 1) (by simp at hk ⊢; omega) (by simpa using hm)
            · cases h with
              | desc _ _ _ k hk hm =>
                cases k with
                | zero =>
                  have : doMatches rest (p :: gp) fuel = .yes := hupm.1.mpr (by simpa using hm)
                  rw [hdm] at this; cases this
                | succ k =>
                  exact hrec.1.mpr (Matches.desc _ _ _ k (by simp at hk ⊢; omega) (by simpa using hm))
      | nth a b =>
        simp only [doMatches]
        by_cases h1 : up.isEmpty = true
        · simp only [h1, if_true]
          refine ⟨⟨by simp, fun h => ?_⟩, by simp⟩
          cases h with | nth _ _ _ _ _ e _ _ _ => simp at h1; exact (e h1).elim
        · simp only [h1]
          have hne : up ≠ [] := by simpa using h1
          by_cases h2 : (node.elemIdx : Int) = 0
          · simp only [h2, if_true]
            refine ⟨⟨by simp, fun h => ?_⟩, by simp⟩
            cases h with | nth _ _ _ _ _ _ e _ _ => exact (e (by exact_mod_cast h2)).elim
          · simp only [h2, if_false]
            have hidx : node.elemIdx ≠ 0 := fun e => h2 (by simp [e])
            by_cases ha : a = 0
            · subst ha
              simp only [if_true]
              by_cases h3 : (node.elemIdx : Int) - b = 0
              · simp only [h3, if_true]
                refine ⟨⟨fun h => Matches.nth _ _ _ _ _ hne hidx ((nth_arith_zero b _).mp h3) (hsame.1.mp h), fun h => ?_⟩, hsame.2⟩
                cases h with | nth _ _ _ _ _ _ _ _ hm => exact hsame.1.mpr hm
              · simp only [h3, if_false]
                refine ⟨⟨by simp, fun h => ?_⟩, by simp⟩
                cases h with | nth _ _ _ _ _ _ _ hn _ => exact (h3 ((nth_arith_zero b _).mpr hn)).elim
            · simp only [ha, if_false, tmod, tdiv]
              by_cases h3 : Int.tmod ((node.elemIdx : Int) - b) a = 0
              · by_cases h4 : Int.tdiv ((node.elemIdx : Int) - b) a ≥ 0
                · simp only [h3, ne_eq, not_true_eq_false, if_false, h4, if_true]
                  refine ⟨⟨fun h => Matches.nth _ _ _ _ _ hne hidx ((nth_arith a b _ ha).mp ⟨h3, h4⟩) (hsame.1.mp h), fun h => ?_⟩, hsame.2⟩
                  cases h with | nth _ _ _ _ _ _ _ _ hm => exact hsame.1.mpr hm
                · simp only [h3, ne_eq, not_true_eq_false, if_false, h4]
                  refine ⟨⟨by simp, fun h => ?_⟩, by simp⟩
                  cases h with | nth _ _ _ _ _ _ _ hn _ => exact (h4 ((nth_arith a b _ ha).mpr hn).2).elim
              · simp only [ne_eq, h3, not_false_eq_true, if_true]
                refine ⟨⟨by simp, fun h => ?_⟩, by simp⟩
                cases h with | nth _ _ _ _ _ _ _ hn _ => exact (h3 ((nth_arith a b _ ha).mpr hn).1).elim

end Css

end H2T
