import H2T.Lemmas.Balance

/-! C07, compositionally: a block rendered through a prefixed sub-renderer (heading, block quote, `dd`) is its content
    rendered at the narrower width, with the prefix put in front of every line. -/

namespace H2T

theorem addLines_plain (ls : List RLine) : ∀ (s : SubR), s.pendingFrags = [] →
    (s.addLines ls).lines = s.lines ++ ls ∧ (s.addLines ls).pendingFrags = [] ∧ (s.addLines ls).wrapping = s.wrapping := by
  induction ls with
  | nil => intro s h; simp [SubR.addLines, h]
  | cons l ls ih =>
    intro s h
    have h1 : (s.addLine l).lines = s.lines ++ [l] ∧ (s.addLine l).pendingFrags = [] ∧ (s.addLine l).wrapping = s.wrapping := by
      cases l with
      | rule b t => simp [SubR.addLine, h]
      | text tl => simp [SubR.addLine, h]
    obtain ⟨a, b, c⟩ := ih (s.addLine l) h1.2.1
    refine ⟨?_, b, c.trans h1.2.2⟩
    show ((s.addLine l).addLines ls).lines = _
    rw [a, h1.1]; simp

/-- the program of a single prefixed block, run in a fresh renderer of width `w` and finished: the body's lines, run in a
    fresh renderer of the width `width_minus` grants, each with its prefix -/
theorem run_single_sub (wm : SubR → Cfg → Nat → Nat → Except Err Nat) (cfg : Cfg) (d : Deco) (w p m : Nat) (first rest : List Ch)
    (asBlock : Bool) (body : List Op) :
    (andThen (runOps wm cfg d { cur := { width := w } } [.sub p m first rest asBlock body]) fun t => t.cur.intoLines) =
    andThen (wm { width := w } cfg p m) fun w' =>
    andThen (runOps wm cfg d { cur := { width := w' } } body) fun r =>
    andThen r.cur.intoLines fun ls => .ok (zipPrefix [] first rest ls) := by
  simp only [runOps, runOp]
  cases e1 : wm { width := w } cfg p m with
  | error e => simp only [andThen_error_eq]
  | ok w' =>
    simp only [andThen_ok_eq]
    cases e2 : runOps wm cfg d { links := [], cur := ({ width := w', annStack := [] } : SubR) } body with
    | error e => simp only [andThen_error_eq]
    | ok r =>
      simp only [andThen_ok_eq]
      have hsb : (if asBlock = true then ({ width := w } : SubR).startBlock else Except.ok ({ width := w } : SubR)) = .ok { width := w } := by
        cases asBlock <;> rfl
      rw [hsb]
      simp only [andThen_ok_eq, SubR.appendSub]
      have hfl : ({ width := w } : SubR).flushWrapping = .ok { width := w } := rfl
      rw [hfl]
      simp only [andThen_ok_eq]
      cases e3 : r.cur.intoLines with
      | error e => simp only [andThen_error_eq]
      | ok ls =>
        simp only [andThen_ok_eq]
        obtain ⟨a, b, c⟩ := addLines_plain (zipPrefix [] first rest ls) ({ width := w } : SubR) rfl
        have hfin : ∀ (s : SubR), s.wrapping = none → s.intoLines = .ok s.lines := by
          intro s hs; simp [SubR.intoLines, SubR.flushWrapping, hs, andThen]
        cases asBlock with
        | true =>
          simp only [if_true]
          rw [hfin _ (by exact c)]
          show Except.ok (({ width := w } : SubR).addLines (zipPrefix [] first rest ls)).lines = _
          rw [a]; rfl
        | false =>
          simp only [Bool.false_eq_true, if_false]
          rw [hfin _ c, a]; rfl

theorem styleOpen_dflt (d : Deco) : styleOpen d {} = [] := rfl
theorem styleClose_dflt (d : Deco) : styleClose d {} = [] := rfl

theorem compile_container (cfg : Cfg) (d : Deco) (kids : List RNode) : compile cfg d (.box {} .container kids) = compileList cfg d kids := by
  simp [compile, styleOpen_dflt, styleClose_dflt]

/-- `renderTree` of the content alone, footnotes off -/
theorem renderTree_container (cfg : Cfg) (d : Deco) (w : Nat) (kids : List RNode) (hfn : cfg.footnotes = false) (hw : w ≠ 0) :
    renderTree cfg d w (.box {} .container kids) =
      andThen (runOps SubR.widthMinus cfg d { cur := { width := w } } (compileList cfg d kids)) fun t => t.cur.intoLines := by
  unfold renderTree
  rw [if_neg hw, compile_container]
  have : ∀ l, footTexts cfg l = [] := by intro l; simp [footTexts, hfn]
  simp only [this, List.isEmpty_nil, if_true]

/-- a tree whose program is one prefixed block around the content -/
theorem renderTree_prefixed (cfg : Cfg) (d : Deco) (w : Nat) (tree : RNode) (kids : List RNode) (p m : Nat) (first rest : List Ch) (asBlock : Bool)
    (hc : compile cfg d tree = [.sub p m first rest asBlock (compileList cfg d kids)]) (hfn : cfg.footnotes = false) (hw : w ≠ 0)
    (w' : Nat) (hw' : SubR.widthMinus { width := w } cfg p m = .ok w') (hw'0 : w' ≠ 0) :
    renderTree cfg d w tree = (renderTree cfg d w' (.box {} .container kids)).map (zipPrefix [] first rest) := by
  rw [renderTree_container cfg d w' kids hfn hw'0]
  unfold renderTree
  rw [if_neg hw, hc]
  have : ∀ l, footTexts cfg l = [] := by intro l; simp [footTexts, hfn]
  simp only [this, List.isEmpty_nil, if_true]
  rw [run_single_sub, hw']
  simp only [andThen_ok_eq]
  cases runOps SubR.widthMinus cfg d { cur := { width := w' } } (compileList cfg d kids) with
  | error e => rfl
  | ok r =>
    simp only [andThen_ok_eq]
    cases r.cur.intoLines with
    | error e => rfl
    | ok ls => rfl

end H2T
